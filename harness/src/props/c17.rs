//! C17 — script ASM text is a faithful, re-parseable rendering of the script.
//!
//! Three legs, all against the real `Script::{from_bytes, to_asm_string,
//! to_extended_asm_string, from_asm_string}`:
//!  1. round trip: scripts are built as reference token lists (refs::script::Tok),
//!     serialised by the reference, rendered by the library and parsed back; the
//!     bytes must be identical.
//!  2. extended rendering: read by the small reader below (`read_extended`); every
//!     push must be announced by the right opcode name and its exact decimal length.
//!  3. parser acceptance: the token grammar of the statement (`classify_token`)
//!     decides accept/reject and the expected bytes; any whitespace between tokens
//!     must give the same script.
use super::libx::{learn_opcode_set, learn_openers, opcode_from_u8};
use super::{hx, pattern, replay_spaces, run_spaces, Case, Prop, Space};
use crate::engine::{coords, guard, panic_site, Acc, Ctx, Report, Tier, Violation, KEEP_PER_KEY};
use crate::refs::script::{self as rs, Tok};
use bsv::Script;
use serde_json::{json, Value};
use std::collections::HashMap;
use std::sync::Arc;

pub const PROP: Prop = Prop {
    run,
    replay,
    spaces: Some(spaces),
    level_note: "trusted base: refs::script serializer/tokenizer and the 60-line ASM token classifier and extended-rendering reader in props/c17.rs, written from the property statement; the set of accepted opcode bytes, the block openers and the opcode names are learned from the implementation (the statement does not fix them); scripts outside the stated element alphabets / nesting depth 3 are not covered",
};

// ---------------------------------------------------------------------------
// learned environment
// ---------------------------------------------------------------------------

pub struct Env {
    /// opcode bytes accepted by Script::from_bytes (0x00 and 0x4f..=0xff)
    pub ops: [bool; 256],
    /// bytes the library treats as block openers
    pub openers: Vec<u8>,
    /// the library's name of every accepted opcode byte
    pub names: Vec<Option<String>>,
    pub by_name: HashMap<String, u8>,
}

pub fn env() -> Env {
    let ops = learn_opcode_set();
    let openers = learn_openers();
    let mut names = vec![None; 256];
    let mut by_name = HashMap::new();
    for b in 0..=255u8 {
        if ops[b as usize] {
            if let Some(o) = opcode_from_u8(b) {
                let n = o.to_string();
                by_name.insert(n.clone(), b);
                names[b as usize] = Some(n);
            }
        }
    }
    Env { ops, openers, names, by_name }
}

impl Env {
    /// opcodes that may stand alone as a script element
    pub fn is_plain_op(&self, b: u8) -> bool {
        self.ops[b as usize] && self.names[b as usize].is_some() && !self.openers.contains(&b) && b != rs::OP_ELSE && b != rs::OP_ENDIF
    }
    pub fn plain_ops(&self) -> Vec<u8> {
        (0..=255u8).filter(|b| self.is_plain_op(*b)).collect()
    }
    fn name(&self, b: u8) -> String {
        self.names[b as usize].clone().unwrap_or_else(|| format!("<op{:02x}>", b))
    }
}


/// Published names of the opcode bytes (Bitcoin SV node `GetOpName`, Bitcoin Core, bsv.js opcode map). Where the tables
/// disagree or carry aliases every published name is listed. Bytes that are not listed are not judged.
fn published_names(b: u8) -> &'static [&'static str] {
    match b {
        0x00 => &["OP_0", "OP_FALSE", "0"],
        0x4c => &["OP_PUSHDATA1"],
        0x4d => &["OP_PUSHDATA2"],
        0x4e => &["OP_PUSHDATA4"],
        0x4f => &["OP_1NEGATE", "-1"],
        0x50 => &["OP_RESERVED"],
        0x51 => &["OP_1", "OP_TRUE", "1"],
        0x52 => &["OP_2", "2"],
        0x53 => &["OP_3", "3"],
        0x54 => &["OP_4", "4"],
        0x55 => &["OP_5", "5"],
        0x56 => &["OP_6", "6"],
        0x57 => &["OP_7", "7"],
        0x58 => &["OP_8", "8"],
        0x59 => &["OP_9", "9"],
        0x5a => &["OP_10", "10"],
        0x5b => &["OP_11", "11"],
        0x5c => &["OP_12", "12"],
        0x5d => &["OP_13", "13"],
        0x5e => &["OP_14", "14"],
        0x5f => &["OP_15", "15"],
        0x60 => &["OP_16", "16"],
        0x61 => &["OP_NOP"],
        0x62 => &["OP_VER"],
        0x63 => &["OP_IF"],
        0x64 => &["OP_NOTIF"],
        0x65 => &["OP_VERIF"],
        0x66 => &["OP_VERNOTIF"],
        0x67 => &["OP_ELSE"],
        0x68 => &["OP_ENDIF"],
        0x69 => &["OP_VERIFY"],
        0x6a => &["OP_RETURN"],
        0x6b => &["OP_TOALTSTACK"],
        0x6c => &["OP_FROMALTSTACK"],
        0x6d => &["OP_2DROP"],
        0x6e => &["OP_2DUP"],
        0x6f => &["OP_3DUP"],
        0x70 => &["OP_2OVER"],
        0x71 => &["OP_2ROT"],
        0x72 => &["OP_2SWAP"],
        0x73 => &["OP_IFDUP"],
        0x74 => &["OP_DEPTH"],
        0x75 => &["OP_DROP"],
        0x76 => &["OP_DUP"],
        0x77 => &["OP_NIP"],
        0x78 => &["OP_OVER"],
        0x79 => &["OP_PICK"],
        0x7a => &["OP_ROLL"],
        0x7b => &["OP_ROT"],
        0x7c => &["OP_SWAP"],
        0x7d => &["OP_TUCK"],
        0x7e => &["OP_CAT"],
        0x7f => &["OP_SPLIT", "OP_SUBSTR"],
        0x80 => &["OP_NUM2BIN", "OP_LEFT"],
        0x81 => &["OP_BIN2NUM", "OP_RIGHT"],
        0x82 => &["OP_SIZE"],
        0x83 => &["OP_INVERT"],
        0x84 => &["OP_AND"],
        0x85 => &["OP_OR"],
        0x86 => &["OP_XOR"],
        0x87 => &["OP_EQUAL"],
        0x88 => &["OP_EQUALVERIFY"],
        0x89 => &["OP_RESERVED1"],
        0x8a => &["OP_RESERVED2"],
        0x8b => &["OP_1ADD"],
        0x8c => &["OP_1SUB"],
        0x8d => &["OP_2MUL"],
        0x8e => &["OP_2DIV"],
        0x8f => &["OP_NEGATE"],
        0x90 => &["OP_ABS"],
        0x91 => &["OP_NOT"],
        0x92 => &["OP_0NOTEQUAL"],
        0x93 => &["OP_ADD"],
        0x94 => &["OP_SUB"],
        0x95 => &["OP_MUL"],
        0x96 => &["OP_DIV"],
        0x97 => &["OP_MOD"],
        0x98 => &["OP_LSHIFT"],
        0x99 => &["OP_RSHIFT"],
        0x9a => &["OP_BOOLAND"],
        0x9b => &["OP_BOOLOR"],
        0x9c => &["OP_NUMEQUAL"],
        0x9d => &["OP_NUMEQUALVERIFY"],
        0x9e => &["OP_NUMNOTEQUAL"],
        0x9f => &["OP_LESSTHAN"],
        0xa0 => &["OP_GREATERTHAN"],
        0xa1 => &["OP_LESSTHANOREQUAL"],
        0xa2 => &["OP_GREATERTHANOREQUAL"],
        0xa3 => &["OP_MIN"],
        0xa4 => &["OP_MAX"],
        0xa5 => &["OP_WITHIN"],
        0xa6 => &["OP_RIPEMD160"],
        0xa7 => &["OP_SHA1"],
        0xa8 => &["OP_SHA256"],
        0xa9 => &["OP_HASH160"],
        0xaa => &["OP_HASH256"],
        0xab => &["OP_CODESEPARATOR"],
        0xac => &["OP_CHECKSIG"],
        0xad => &["OP_CHECKSIGVERIFY"],
        0xae => &["OP_CHECKMULTISIG"],
        0xaf => &["OP_CHECKMULTISIGVERIFY"],
        0xb0 => &["OP_NOP1"],
        0xb1 => &["OP_NOP2", "OP_CHECKLOCKTIMEVERIFY"],
        0xb2 => &["OP_NOP3", "OP_CHECKSEQUENCEVERIFY"],
        0xb3 => &["OP_NOP4"],
        0xb4 => &["OP_NOP5"],
        0xb5 => &["OP_NOP6"],
        0xb6 => &["OP_NOP7"],
        0xb7 => &["OP_NOP8"],
        0xb8 => &["OP_NOP9"],
        0xb9 => &["OP_NOP10"],
        0xfd => &["OP_PUBKEYHASH"],
        0xfe => &["OP_PUBKEY"],
        0xff => &["OP_INVALIDOPCODE"],
        _ => &[],
    }
}

// ---------------------------------------------------------------------------
// reference for the text format
// ---------------------------------------------------------------------------

/// Reference rendering of a token list as ASM tokens: opcode -> its name
/// (OP_0 -> "0"), push -> payload hex.
pub fn ref_asm_tokens(toks: &[Tok], env: &Env) -> Vec<String> {
    toks.iter()
        .map(|t| match t {
            Tok::Op(0) => "0".to_string(),
            Tok::Op(b) => env.name(*b),
            Tok::Push(d) | Tok::PushData(_, d) => hex::encode(d),
        })
        .collect()
}

#[derive(Clone, Debug, PartialEq)]
pub enum TokExp {
    /// token must be accepted and encode as one of these byte strings
    Accept(Vec<Vec<u8>>),
    Reject,
    /// the statement does not decide (names of the PUSHDATA opcodes, structural opcodes standing alone)
    Open,
}

fn is_hex_digit(c: u8) -> bool {
    c.is_ascii_digit() || (b'a'..=b'f').contains(&c) || (b'A'..=b'F').contains(&c)
}

fn unhex(s: &str) -> Vec<u8> {
    let v = |c: u8| -> u8 {
        match c {
            b'0'..=b'9' => c - b'0',
            b'a'..=b'f' => c - b'a' + 10,
            _ => c - b'A' + 10,
        }
    };
    s.as_bytes().chunks(2).map(|p| v(p[0]) << 4 | v(p[1])).collect()
}

/// The token grammar of the statement: opcode names, the numeric aliases 0..16,
/// even-length hex data; everything else is not a token.
pub fn classify_token(tok: &str, env: &Env) -> TokExp {
    if tok == "OP_PUSHDATA1" || tok == "OP_PUSHDATA2" || tok == "OP_PUSHDATA4" {
        return TokExp::Open;
    }
    if let Some(b) = env.by_name.get(tok) {
        if !env.is_plain_op(*b) {
            return TokExp::Open;
        }
        return TokExp::Accept(vec![vec![*b]]);
    }
    let bytes = tok.as_bytes();
    let is_alias = !bytes.is_empty() && bytes.len() <= 2 && bytes.iter().all(|c| c.is_ascii_digit()) && (bytes.len() == 1 || bytes[0] != b'0') && tok.parse::<u8>().map(|n| n <= 16).unwrap_or(false);
    let is_hex = bytes.len() >= 2 && bytes.len() % 2 == 0 && bytes.iter().all(|c| is_hex_digit(*c));
    let mut enc = vec![];
    if is_alias {
        let n: u8 = tok.parse().unwrap();
        enc.push(vec![if n == 0 { 0 } else { 0x50 + n }]);
    }
    if is_hex {
        // "10".."16" are both an alias and hex data: either reading is an acceptance
        enc.push(rs::serialize(&[rs::minimal_push(&unhex(tok))]));
    }
    if enc.is_empty() {
        TokExp::Reject
    } else {
        TokExp::Accept(enc)
    }
}

#[derive(Clone, Debug, PartialEq)]
pub enum ExtItem {
    Op(u8),
    /// (announced form: 0 = OP_PUSH, 0x4c/0x4d/0x4e = OP_PUSHDATAn; announced length; payload)
    Push(u8, usize, Vec<u8>),
}

/// Reader for the extended rendering: `OP_PUSH <len> <hex>`, `OP_PUSHDATAn <len> <hex>`,
/// otherwise an opcode name (or `0`). A zero-length payload may be an empty field or absent.
pub fn read_extended(text: &str, env: &Env) -> Result<Vec<ExtItem>, String> {
    let t: Vec<&str> = if text.is_empty() { vec![] } else { text.split(' ').collect() };
    let mut out = vec![];
    let mut i = 0;
    while i < t.len() {
        let form = match t[i] {
            "OP_PUSH" => Some(0u8),
            "OP_PUSHDATA1" => Some(0x4c),
            "OP_PUSHDATA2" => Some(0x4d),
            "OP_PUSHDATA4" => Some(0x4e),
            _ => None,
        };
        match form {
            Some(f) => {
                let ls = *t.get(i + 1).ok_or_else(|| format!("field {}: push without length", i))?;
                if ls.is_empty() || !ls.bytes().all(|c| c.is_ascii_digit()) || (ls.len() > 1 && ls.starts_with('0')) {
                    return Err(format!("field {}: length {:?} is not a plain decimal number", i + 1, ls));
                }
                let n: usize = ls.parse().map_err(|_| format!("field {}: length does not fit", i + 1))?;
                if n == 0 {
                    i += if t.get(i + 2) == Some(&"") { 3 } else { 2 };
                    out.push(ExtItem::Push(f, 0, vec![]));
                    continue;
                }
                let hs = *t.get(i + 2).ok_or_else(|| format!("field {}: push without payload", i))?;
                if hs.len() % 2 != 0 || !hs.bytes().all(is_hex_digit) {
                    return Err(format!("field {}: payload is not hex", i + 2));
                }
                out.push(ExtItem::Push(f, n, unhex(hs)));
                i += 3;
            }
            None => {
                let b = if t[i] == "0" { Some(0u8) } else { env.by_name.get(t[i]).copied() };
                match b {
                    Some(b) => out.push(ExtItem::Op(b)),
                    None => return Err(format!("field {}: {:?} is neither a push announcement nor an opcode name", i, trunc_s(t[i]))),
                }
                i += 1;
            }
        }
    }
    Ok(out)
}

fn trunc_s(s: &str) -> String {
    if s.len() <= 60 {
        s.to_string()
    } else {
        format!("{}…({} chars)", &s[..40], s.len())
    }
}

// ---------------------------------------------------------------------------
// alphabets
// ---------------------------------------------------------------------------

pub const LONG_LENS: [usize; 8] = [3, 20, 75, 76, 255, 256, 65535, 65536];

fn long_content(k: u64, n: usize) -> Vec<u8> {
    match k {
        0 => pattern(0, n),
        1 => pattern(1, n),
        2 => pattern(2, n),
        _ => vec![0x16; n], // hex text consists of decimal digits only
    }
}

const TWO_BYTE_OTHERS: [[u8; 2]; 13] = [[0x00, 0xff], [0xab, 0xcd], [0xff, 0xff], [0x0a, 0x00], [0x00, 0x0a], [0xde, 0xad], [0x4f, 0x50], [0x0e, 0x12], [0x1e, 0x05], [0xe0, 0x00], [0x7f, 0xff], [0x80, 0x00], [0x4c, 0x4d]];

/// Every element of the single-element space.
pub fn single_alphabet(env: &Env) -> Vec<Tok> {
    let mut v = vec![];
    for b in env.plain_ops() {
        v.push(Tok::Op(b));
    }
    for x in 0..=255u8 {
        v.push(Tok::Push(vec![x]));
    }
    let dec: Vec<u8> = (0..=0x99u8).filter(|b| b >> 4 <= 9 && b & 15 <= 9).collect();
    for a in &dec {
        for b in &dec {
            v.push(Tok::Push(vec![*a, *b]));
        }
    }
    for o in TWO_BYTE_OTHERS {
        v.push(Tok::Push(o.to_vec()));
    }
    for n in LONG_LENS {
        for k in 0..4 {
            v.push(rs::minimal_push(&long_content(k, n)));
        }
    }
    v
}

const PAIR_OPS: [u8; 19] = [0x00, 0x4f, 0x50, 0x51, 0x60, 0x61, 0x69, 0x6a, 0x76, 0x87, 0xac, 0xab, 0xb9, 0xba, 0xfb, 0xfc, 0xfd, 0xfe, 0xff];
const PAIR_P1: [u8; 11] = [0x00, 0x01, 0x09, 0x0a, 0x10, 0x16, 0x17, 0x4f, 0x51, 0x80, 0xff];
const PAIR_P2: [[u8; 2]; 5] = [[0, 0], [0x00, 0x10], [0x10, 0x00], [0x12, 0x34], [0xff, 0xff]];
const PAIR_LONG: [usize; 6] = [3, 20, 75, 76, 255, 256];

/// Sub-alphabet of the ordered-pair space (about 40 elements; thorough: every
/// opcode, every one-byte push and the same long pushes).
pub fn pair_alphabet(env: &Env, tier: Tier) -> Vec<Tok> {
    let mut v = vec![];
    if tier.is_thorough() {
        for b in env.plain_ops() {
            v.push(Tok::Op(b));
        }
        for x in 0..=255u8 {
            v.push(Tok::Push(vec![x]));
        }
    } else {
        for b in PAIR_OPS {
            if env.is_plain_op(b) {
                v.push(Tok::Op(b));
            }
        }
        for x in PAIR_P1 {
            v.push(Tok::Push(vec![x]));
        }
    }
    for p in PAIR_P2 {
        v.push(Tok::Push(p.to_vec()));
    }
    for n in PAIR_LONG {
        v.push(rs::minimal_push(&long_content(if n % 2 == 0 { 2 } else { 3 }, n)));
    }
    v
}

fn cond_leaves() -> Vec<Tok> {
    vec![Tok::Op(0x76), Tok::Push(vec![0xab]), Tok::Op(0x00), Tok::Push(vec![0x12, 0x34])]
}

/// Conditional skeletons. A branch content with nesting budget r is: empty | leaf |
/// block(r) [| leaf block(r) | block(r) leaf when `extras`]; a block is
/// opener content(r-1) [ELSE content(r-1)] ENDIF (ELSE part absent = "missing").
pub struct Skel {
    c: Vec<u64>,
    n: Vec<u64>,
    extras: bool,
}

impl Skel {
    pub fn new(depth: usize, extras: bool) -> Skel {
        let mut c = vec![2u64];
        let mut n = vec![0u64];
        for r in 1..=depth {
            let nr = c[r - 1] * (1 + c[r - 1]);
            n.push(nr);
            c.push(2 + nr * if extras { 3 } else { 1 });
        }
        Skel { c, n, extras }
    }
    pub fn blocks(&self, depth: usize) -> u64 {
        self.n[depth]
    }
    fn content(&self, r: usize, idx: u64, st: &mut Fill, out: &mut Vec<Tok>) {
        match idx {
            0 => {}
            1 => st.leaf(out),
            _ => {
                let j = idx - 2;
                let variant = j / self.n[r];
                let b = j % self.n[r];
                debug_assert!(self.extras || variant == 0);
                if variant == 1 {
                    st.leaf(out);
                }
                self.block(r, b, st, out);
                if variant == 2 {
                    st.leaf(out);
                }
            }
        }
    }
    pub fn block(&self, r: usize, idx: u64, st: &mut Fill, out: &mut Vec<Tok>) {
        let cc = self.c[r - 1];
        let pass = idx % cc;
        let rest = idx / cc;
        st.opener(out);
        self.content(r - 1, pass, st, out);
        if rest > 0 {
            out.push(Tok::Op(rs::OP_ELSE));
            self.content(r - 1, rest - 1, st, out);
        }
        out.push(Tok::Op(rs::OP_ENDIF));
    }
}

pub struct Fill<'a> {
    leaves: &'a [Tok],
    openers: &'a [u8],
    li: usize,
    oi: usize,
}

impl<'a> Fill<'a> {
    fn leaf(&mut self, out: &mut Vec<Tok>) {
        out.push(self.leaves[self.li % self.leaves.len()].clone());
        self.li += 1;
    }
    fn opener(&mut self, out: &mut Vec<Tok>) {
        out.push(Tok::Op(self.openers[self.oi % self.openers.len()]));
        self.oi += 1;
    }
}

// ---------------------------------------------------------------------------
// evaluation
// ---------------------------------------------------------------------------

pub const SEPS: [&str; 10] = [" ", "  ", "\n", " \n ", "\r\n", "\t", " \t ", "\n\n", " \n\n ", " \r\n "];
const LEADS: [&str; 7] = ["", " ", "\n", "\t", "\r\n", "  \n", "\t "];
const TRAILS: [&str; 7] = ["", " ", "\n", "\t", "\r\n", "\n  ", " \t"];

#[derive(Clone, Debug, PartialEq)]
enum P {
    Ok(Vec<u8>),
    Err(String),
    Panic(String),
}

fn parse(text: &str) -> P {
    match guard(|| Script::from_asm_string(text).map(|s| s.to_bytes())) {
        Ok(Ok(b)) => P::Ok(b),
        Ok(Err(e)) => P::Err(e.to_string()),
        Err(p) => P::Panic(p),
    }
}

fn show_p(p: &P) -> String {
    match p {
        P::Ok(b) => format!("Ok({})", hx(b)),
        P::Err(e) => format!("Err({})", trunc_s(e)),
        P::Panic(e) => format!("panic({})", e),
    }
}

/// Insert a violation without building its JSON when it would not be kept.
pub fn violate_lazy(acc: &mut Acc, key: &str, order: u64, mk: impl FnOnce() -> (Value, String)) {
    if !acc.violations.contains_key(key) {
        acc.violations.insert(key.to_string(), (0, Vec::new()));
    }
    let e = acc.violations.get_mut(key).unwrap();
    e.0 += 1;
    if e.1.len() < KEEP_PER_KEY || e.1.last().map(|v| v.order > order).unwrap_or(true) {
        let (case, detail) = mk();
        e.1.push(Violation { key: key.to_string(), order, case, detail });
        e.1.sort_by_key(|v| v.order);
        e.1.truncate(KEEP_PER_KEY);
    }
}

/// Would a violation of this key and order be kept as an example?
pub fn would_keep(acc: &Acc, key: &str, order: u64) -> bool {
    match acc.violations.get(key) {
        None => true,
        Some(e) => e.1.len() < KEEP_PER_KEY || e.1.last().map(|v| v.order > order).unwrap_or(true),
    }
}

/// Per-case collection: one violation per root-cause key and case; the detail
/// lists the instances and is only formatted when the example would be kept.
pub struct Found {
    order: u64,
    items: Vec<(String, u32, Vec<String>)>,
}

impl Found {
    pub fn new(case: &Case) -> Found {
        Found { order: case.idx, items: Vec::new() }
    }
    pub fn add(&mut self, acc: &Acc, key: &str, detail: impl FnOnce() -> String) {
        let i = match self.items.iter().position(|x| x.0 == key) {
            Some(i) => i,
            None => {
                self.items.push((key.to_string(), 0, Vec::new()));
                self.items.len() - 1
            }
        };
        self.items[i].1 += 1;
        if self.items[i].2.len() < 4 && would_keep(acc, key, self.order) {
            let d = detail();
            self.items[i].2.push(d);
        }
    }
    pub fn flush(self, acc: &mut Acc, case: &Case, input: impl Fn() -> Value) {
        for (k, n, ds) in self.items {
            violate_lazy(acc, &k, case.idx, || {
                let mut d = ds.join(" | ");
                if n as usize > ds.len() {
                    d.push_str(&format!(" | … {} instances in this case", n));
                }
                (case.json(input()), d)
            });
        }
    }
}

fn tok_class(t: &Tok, env: &Env) -> &'static str {
    match t {
        Tok::Op(0) => "OP_0",
        Tok::Op(b) if env.openers.contains(b) || *b == rs::OP_ELSE || *b == rs::OP_ENDIF => "conditional",
        Tok::Op(_) => "opcode",
        Tok::Push(d) if d.len() == 1 => "push1",
        Tok::Push(d) if d.len() == 2 => "push2",
        Tok::Push(_) => "direct-push",
        Tok::PushData(0x4c, _) => "pushdata1",
        Tok::PushData(0x4d, _) => "pushdata2",
        Tok::PushData(_, _) => "pushdata4",
    }
}

fn alias_of_hex(d: &[u8]) -> Option<u8> {
    // payload whose hex text is one of the numeric aliases "10".."16"
    if d.len() == 1 && (0x10..=0x16).contains(&d[0]) {
        Some(0x5a + (d[0] - 0x10))
    } else {
        None
    }
}

fn describe(toks: &[Tok]) -> Vec<String> {
    toks.iter()
        .take(12)
        .map(|x| match x {
            Tok::Op(o) => format!("op{:02x}", o),
            Tok::Push(d) => format!("push{}:{}", d.len(), hx(&d[..d.len().min(8)])),
            Tok::PushData(c, d) => format!("pd{:02x}/{}:{}", c, d.len(), hx(&d[..d.len().min(8)])),
        })
        .collect()
}

/// How a whitespace variant of a text may differ from the single-space text.
fn ws_divergence(base: &P, got: &P) -> Option<std::borrow::Cow<'static, str>> {
    match (base, got) {
        (_, P::Panic(p)) => Some(format!("C17/from_asm_string/kind=panic@{}", panic_site(p)).into()),
        (P::Ok(a), P::Ok(b)) if a == b => None,
        (P::Ok(a), P::Ok(b)) => {
            let strip = |x: &[u8]| rs::tokenize(x).map(|t| t.into_iter().filter(|k| *k != Tok::Op(0)).collect::<Vec<_>>()).ok();
            if strip(a).is_some() && strip(a) == strip(b) && b.len() > a.len() {
                Some("C17/parse/kind=whitespace-run-becomes-empty-push".into())
            } else {
                Some("C17/parse/kind=whitespace-changes-script".into())
            }
        }
        (P::Ok(_), P::Err(_)) => Some("C17/parse/kind=whitespace-separator-rejected".into()),
        (P::Err(_), P::Err(_)) => None,
        (P::Err(_), P::Ok(_)) => Some("C17/parse/kind=whitespace-changes-verdict".into()),
        (P::Panic(_), _) => None,
    }
}

#[derive(Clone, Copy)]
struct Legs {
    /// separators tried on the library's own rendering
    seps: &'static [&'static str],
    lead_trail: bool,
}

const ALL_LEGS: Legs = Legs { seps: &SEPS, lead_trail: true };
const FEW_LEGS: Legs = Legs { seps: &[" ", "\n", "\t", " \n\n "], lead_trail: false };

/// Round trip + extended rendering + whitespace variants for one minimally-pushed script.
fn eval_script(toks: &[Tok], env: &Env, legs: Legs, acc: &mut Acc, case: &Case) {
    acc.evaluations += 1;
    let bytes = rs::serialize(toks);
    let input = || json!({"script_hex": hx(&bytes), "elements": describe(toks)});
    let mut found = Found::new(case);
    acc.transitions += 1;
    let script = match guard(|| Script::from_bytes(&bytes)) {
        Ok(Ok(s)) => s,
        Ok(Err(_)) => {
            // The byte parser refuses the string. Whether it should is C02's business; but a script is also what the
            // construction API holds, so when the reference nester can build the element tree and the library
            // serialises that tree to these very bytes, the text legs run on the constructed script.
            // only for token lists that are balanced in the plain sense (every OP_ELSE / OP_ENDIF inside an open block, every
            // block closed): a parser that refuses stray OP_ELSE / OP_ENDIF is entitled to, and then so is the text reader
            let balanced = {
                let mut depth = 0i32;
                let mut ok = true;
                for t in toks {
                    if let Tok::Op(b) = t {
                        if env.openers.contains(b) {
                            depth += 1;
                        } else if *b == rs::OP_ELSE && depth == 0 {
                            ok = false;
                        } else if *b == rs::OP_ENDIF {
                            depth -= 1;
                            if depth < 0 {
                                ok = false;
                            }
                        }
                    }
                }
                ok && depth == 0
            };
            let built = if balanced { super::libx::nest_tokens(toks, &env.openers).and_then(|bits| guard(|| Script::from_script_bits(bits)).ok()) } else { None };
            match built {
                Some(s) if guard(|| s.to_bytes()).ok().as_deref() == Some(&bytes[..]) => {
                    acc.bump("script_built_from_elements_because_from_bytes_rejects", 1);
                    s
                }
                _ => {
                    acc.bump("premise_script_rejected_by_from_bytes", 1);
                    acc.outcome(b"premise-reject");
                    return;
                }
            }
        }
        Err(p) => {
            found.add(acc, &format!("C17/from_bytes/kind=panic@{}", panic_site(&p)), || p.clone());
            found.flush(acc, case, input);
            return;
        }
    };
    acc.nontrivial_structural += 1;
    acc.states_structural += 1;

    // leg 1: round trip through the plain rendering
    acc.transitions += 2;
    acc.traces += 1;
    let mut rt_class: u8 = 0;
    let asm = guard(|| script.to_asm_string());
    match &asm {
        Err(p) => {
            rt_class = 9;
            found.add(acc, &format!("C17/to_asm_string/kind=panic@{}", panic_site(p)), || p.clone());
        }
        Ok(text) => {
            let base = parse(text);
            match &base {
                P::Panic(p) => {
                    rt_class = 8;
                    found.add(acc, &format!("C17/from_asm_string/kind=panic@{}", panic_site(p)), || format!("rendering {:?}: {}", trunc_s(text), p));
                }
                P::Err(e) => {
                    rt_class = 7;
                    found.add(acc, "C17/roundtrip/kind=own-rendering-rejected", || format!("rendering {:?} -> Err({})", trunc_s(text), trunc_s(e)));
                }
                P::Ok(b2) if *b2 == bytes => {}
                P::Ok(b2) => {
                    let got = rs::tokenize(b2).unwrap_or_default();
                    let i = toks.iter().zip(got.iter()).position(|(a, b)| a != b).unwrap_or(toks.len().min(got.len()));
                    let key = match (toks.get(i), got.get(i)) {
                        (Some(Tok::Push(d)), Some(Tok::Op(o))) if alias_of_hex(d) == Some(*o) => {
                            rt_class = 1;
                            "C17/roundtrip/kind=push-rendered-as-numeric-alias".to_string()
                        }
                        (Some(t), _) => {
                            rt_class = 2;
                            format!("C17/roundtrip/kind=bytes-differ/elem={}", tok_class(t, env))
                        }
                        (None, _) => {
                            rt_class = 3;
                            "C17/roundtrip/kind=bytes-differ/elem=extra-elements".to_string()
                        }
                    };
                    found.add(acc, &key, || format!("rendering {:?} parses back as {} (element {} differs)", trunc_s(text), hx(b2), i));
                }
            }
            // whitespace variants of the library's own rendering must parse like the rendering
            let parts: Vec<&str> = text.split(' ').collect();
            if !matches!(base, P::Panic(_)) && !text.is_empty() {
                if parts.len() >= 2 {
                    for sep in &legs.seps[1..] {
                        let v = parts.join(sep);
                        acc.transitions += 1;
                        acc.traces += 1;
                        let got = parse(&v);
                        if let Some(k) = ws_divergence(&base, &got) {
                            found.add(acc, &k, || format!("separator {:?}: {} instead of {}", sep, show_p(&got), show_p(&base)));
                        }
                    }
                }
                if legs.lead_trail {
                    for (l, t) in LEADS[1..].iter().map(|l| (*l, "")).chain(TRAILS[1..].iter().map(|t| ("", *t))) {
                        let v = format!("{}{}{}", l, text, t);
                        acc.transitions += 1;
                        acc.traces += 1;
                        let got = parse(&v);
                        if let Some(k) = ws_divergence(&base, &got) {
                            found.add(acc, &k, || format!("leading {:?} trailing {:?}: {} instead of {}", l, t, show_p(&got), show_p(&base)));
                        }
                    }
                }
            }
        }
    }

    // leg 2: extended rendering
    let ext_class = eval_extended(&script, toks, env, &mut found, acc);
    acc.outcome(&[b'r', rt_class, ext_class, toks.len().min(255) as u8, bytes.first().copied().unwrap_or(0)]);
    found.flush(acc, case, input);
}

fn eval_extended(script: &Script, toks: &[Tok], env: &Env, found: &mut Found, acc: &mut Acc) -> u8 {
    acc.transitions += 1;
    acc.traces += 1;
    let text = match guard(|| script.to_extended_asm_string()) {
        Ok(t) => t,
        Err(p) => {
            found.add(acc, &format!("C17/to_extended_asm_string/kind=panic@{}", panic_site(&p)), || p.clone());
            return 9;
        }
    };
    let items = match read_extended(&text, env) {
        Ok(i) => i,
        Err(e) => {
            found.add(acc, "C17/to_extended_asm_string/kind=unreadable", || format!("{:?}: {}", trunc_s(&text), e));
            return 8;
        }
    };
    if items.len() != toks.len() {
        found.add(acc, "C17/to_extended_asm_string/kind=wrong-element-count", || format!("{:?}: {} items for {} elements", trunc_s(&text), items.len(), toks.len()));
        return 7;
    }
    for (i, (it, t)) in items.iter().zip(toks.iter()).enumerate() {
        let (form, data) = match t {
            Tok::Op(b) => {
                if *it != ExtItem::Op(*b) {
                    found.add(acc, "C17/to_extended_asm_string/kind=wrong-element", || format!("{:?}: item {} is {:?}, element is opcode {:02x}", trunc_s(&text), i, it, b));
                    return 6;
                }
                continue;
            }
            Tok::Push(d) => (0u8, d),
            Tok::PushData(c, d) => (*c, d),
        };
        let fname = |f: u8| match f {
            0 => "OP_PUSH",
            0x4c => "OP_PUSHDATA1",
            0x4d => "OP_PUSHDATA2",
            _ => "OP_PUSHDATA4",
        };
        match it {
            ExtItem::Op(b) => {
                found.add(acc, "C17/to_extended_asm_string/kind=wrong-element", || format!("{:?}: item {} is opcode {:02x}, element is a push", trunc_s(&text), i, b));
                return 6;
            }
            ExtItem::Push(f, n, d) => {
                if *f != form {
                    found.add(acc, &format!("C17/to_extended_asm_string/kind=wrong-push-opcode/form={}", fname(form)), || format!("{:?}: item {} announced as {} but encoded with {}", trunc_s(&text), i, fname(*f), fname(form)));
                    return 5;
                }
                if *n != data.len() {
                    found.add(acc, &format!("C17/to_extended_asm_string/kind=wrong-length/form={}", fname(form)), || format!("{:?}: item {} states length {} for {} bytes", trunc_s(&text), i, n, data.len()));
                    return 4;
                }
                if d != data {
                    found.add(acc, &format!("C17/to_extended_asm_string/kind=wrong-payload/form={}", fname(form)), || format!("{:?}: item {} payload differs", trunc_s(&text), i));
                    return 3;
                }
            }
        }
    }
    0
}

/// Parser acceptance: one text with a reference expectation.
struct TextCase {
    class: String,
    text: String,
    exp: TokExp,
}

fn eval_text(tc: &TextCase, acc: &mut Acc, case: &Case) {
    acc.evaluations += 1;
    acc.transitions += 1;
    let input = || json!({"asm": trunc_s(&tc.text), "class": tc.class, "expected": match &tc.exp { TokExp::Accept(v) => json!({"accept_as_one_of": v.iter().map(|b| hx(b)).collect::<Vec<_>>()}), TokExp::Reject => json!("reject"), TokExp::Open => json!("not decided by the statement") }});
    let got = parse(&tc.text);
    let code = match &got {
        P::Ok(_) => 1u8,
        P::Err(_) => 2,
        P::Panic(_) => 3,
    };
    let mut found = Found::new(case);
    match (&tc.exp, &got) {
        (_, P::Panic(p)) => found.add(acc, &format!("C17/from_asm_string/kind=panic@{}", panic_site(p)), || p.clone()),
        (TokExp::Open, _) => {
            acc.bump(&format!("open_class/{}/{}", tc.class, if code == 1 { "accepted" } else { "rejected" }), 1);
        }
        (TokExp::Accept(encs), P::Ok(b)) => {
            acc.traces += 1;
            acc.nontrivial_structural += 1;
            if !encs.contains(b) {
                found.add(acc, &format!("C17/parse/kind=wrong-script/class={}", tc.class), || format!("parsed as {} expected {}", hx(b), encs.iter().map(|e| hx(e)).collect::<Vec<_>>().join(" or ")));
            }
        }
        (TokExp::Accept(_), P::Err(e)) => {
            acc.traces += 1;
            found.add(acc, &format!("C17/parse/kind=valid-token-rejected/class={}", tc.class), || format!("Err({})", trunc_s(e)));
        }
        (TokExp::Reject, P::Ok(b)) => {
            acc.traces += 1;
            acc.nontrivial_structural += 1;
            found.add(acc, &format!("C17/parse/kind=invalid-token-accepted/class={}", tc.class), || format!("accepted as {}", hx(b)));
        }
        (TokExp::Reject, P::Err(_)) => {
            acc.traces += 1;
            acc.nontrivial_structural += 1;
        }
    }
    let exp_code = match &tc.exp {
        TokExp::Accept(_) => 1u8,
        TokExp::Reject => 2,
        TokExp::Open => 3,
    };
    acc.outcome(&[b't', code, exp_code]);
    found.flush(acc, case, input);
}

/// Token classes of the acceptance leg, each alone and between two opcodes.
fn text_cases(env: &Env) -> Vec<TextCase> {
    let mut toks: Vec<(String, String)> = vec![]; // (class, token)
    for b in 0..=255u8 {
        if let Some(n) = &env.names[b as usize] {
            let class = if env.is_plain_op(b) { "opcode-name" } else { "structural-opcode-name" };
            toks.push((class.into(), n.clone()));
        }
    }
    for n in ["OP_PUSHDATA1", "OP_PUSHDATA2", "OP_PUSHDATA4"] {
        toks.push(("pushdata-opcode-name".into(), n.into()));
    }
    for n in 0..=16 {
        toks.push(("numeric-alias".into(), n.to_string()));
    }
    for t in ["17", "18", "20", "21", "75", "99"] {
        toks.push(("two-digit-hex-above-16".into(), t.into()));
    }
    for t in ["00", "01", "05", "09", "0000", "0016"] {
        toks.push(("hex-with-leading-zero".into(), t.into()));
    }
    for t in ["-1", "+1", "-0", "1.0", "1e1"] {
        toks.push(("signed-or-decimal-number".into(), t.into()));
    }
    for t in ["a", "f", "abc", "123", "007", "016", "12345", "abcde", "fffffff"] {
        toks.push(("odd-length-hex".into(), t.into()));
    }
    for t in ["OP_FOO", "OP_", "OP", "OP_DUP2", "OP_17", "OP_-1"] {
        toks.push(("unknown-opcode-name".into(), t.into()));
    }
    for t in ["0x51", "0x", "x51", "51h", "0X51", "#51"] {
        toks.push(("prefixed-hex".into(), t.into()));
    }
    for t in ["zz", "0g", "g0", "12_4", "ab,cd", "ab.d"] {
        toks.push(("non-hex-characters".into(), t.into()));
    }
    for t in ["abcd", "ABCD", "AbCd", "aB", "Ff", "deadBEEF", "DEADBEEF", "deadbeef", "0A", "0a", "1E", "1e"] {
        toks.push(("hex-any-case".into(), t.into()));
    }
    for n in [3usize, 20, 75, 76, 255, 256] {
        toks.push(("long-hex".into(), hex::encode(pattern(2, n))));
        toks.push(("long-hex".into(), hex::encode(pattern(2, n)).to_uppercase()));
    }
    let mut v = vec![];
    for (class, t) in toks {
        let exp = classify_token(&t, env);
        if class == "structural-opcode-name" {
            // openers / ELSE / ENDIF only make sense inside a block
            let b = env.by_name[&t];
            if env.openers.contains(&b) {
                v.push(TextCase { class: class.clone(), text: format!("{} OP_ENDIF", t), exp: TokExp::Accept(vec![vec![b, rs::OP_ENDIF]]) });
                v.push(TextCase { class: class.clone(), text: format!("OP_1 {} OP_2 OP_ELSE OP_3 OP_ENDIF OP_4", t), exp: TokExp::Accept(vec![vec![0x51, b, 0x52, rs::OP_ELSE, 0x53, rs::OP_ENDIF, 0x54]]) });
            }
            v.push(TextCase { class, text: t, exp: TokExp::Open });
            continue;
        }
        let embedded = match &exp {
            TokExp::Accept(e) => TokExp::Accept(
                e.iter()
                    .map(|x| {
                        let mut b = vec![0x51];
                        b.extend_from_slice(x);
                        b.push(0x52);
                        b
                    })
                    .collect(),
            ),
            o => o.clone(),
        };
        v.push(TextCase { class: class.clone(), text: format!("OP_1 {} OP_2", t), exp: embedded });
        v.push(TextCase { class, text: t, exp });
    }
    v
}

/// Base scripts of the dedicated whitespace space (no payload whose hex is a numeric alias).
fn ws_scripts(env: &Env) -> Vec<Vec<Tok>> {
    let p = |d: &[u8]| rs::minimal_push(d);
    let mut v: Vec<Vec<Tok>> = vec![
        vec![Tok::Op(0x51)],
        vec![Tok::Op(0x51), Tok::Op(0x52)],
        vec![Tok::Op(0x00), Tok::Op(0x00)],
        vec![p(&[0xab]), p(&[0xcd, 0xef])],
        vec![Tok::Op(0x76), Tok::Op(0xa9), p(&pattern(2, 20)), Tok::Op(0x88), Tok::Op(0xac)],
        vec![Tok::Op(0x00), Tok::Op(0x6a), p(&pattern(2, 76)), p(&[0x17])],
        vec![Tok::Op(0x63), Tok::Op(0x51), Tok::Op(0x67), Tok::Op(0x52), Tok::Op(0x68)],
        vec![Tok::Op(0x51), Tok::Op(0x64), Tok::Op(0x68), p(&[0x00, 0x00])],
        vec![Tok::Op(0x63), Tok::Op(0x64), p(&[0xff]), Tok::Op(0x68), Tok::Op(0x67), Tok::Op(0x68), Tok::Op(0x61)],
    ];
    v.retain(|s| {
        s.iter().all(|t| match t {
            Tok::Op(b) => env.ops[*b as usize],
            _ => true,
        })
    });
    v
}

const WS_ONLY: [&str; 9] = ["", " ", "  ", "\n", "\t", "\r\n", " \n ", " \t ", "\n \n"];

pub fn spaces(tier: Tier) -> Vec<Space> {
    let env = Arc::new(env());
    let mut v = vec![];

    // 1a. every element alone
    {
        let e = env.clone();
        let alpha = Arc::new(single_alphabet(&env));
        v.push(Space::new("single", alpha.len() as u64, move |case, acc| {
            let t = &alpha[case.idx as usize];
            if case.idx == 0 || case.idx == 5000 {
                acc.sample(case.idx, || json!({"space": "single", "element": describe(std::slice::from_ref(t))}));
            }
            eval_script(std::slice::from_ref(t), &e, ALL_LEGS, acc, case);
        }));
    }
    // 1a+. every two-byte payload (all 65536), and in the thorough tier every three-byte payload, as a single minimal push:
    // hex text that happens to spell something else (an alias, an opcode name with or without its prefix) must come back as data
    {
        let e = env.clone();
        v.push(Space::new("every-2-byte-payload", 65536, move |case, acc| {
            let toks = [Tok::Push(vec![(case.idx >> 8) as u8, case.idx as u8])];
            eval_script(&toks, &e, FEW_LEGS, acc, case);
        }));
        if tier.is_thorough() {
            let e = env.clone();
            v.push(Space::new("every-3-byte-payload", 1 << 24, move |case, acc| {
                let toks = [Tok::Push(vec![(case.idx >> 16) as u8, (case.idx >> 8) as u8, case.idx as u8])];
                eval_script(&toks, &e, FEW_LEGS, acc, case);
            }));
        }
    }
    // 1a'. every push payload length 1..=N (interior lengths), alone and inside a conditional branch
    {
        let e = env.clone();
        let maxlen: u64 = if tier.is_thorough() { 4200 } else { 1100 };
        let extra: Vec<u64> = vec![16383, 16384, 16385, 65535, 65536, 65537, 100000];
        let total = maxlen + extra.len() as u64;
        v.push(Space::new("push-length-sweep", total * 2, move |case, acc| {
            let c = coords(case.idx, &[total, 2]);
            let n = if c[0] < maxlen { c[0] + 1 } else { extra[(c[0] - maxlen) as usize] } as usize;
            let data: Vec<u8> = (0..n).map(|i| (i * 5 + 0xa1) as u8).collect();
            let push = rs::minimal_push(&data);
            let toks: Vec<Tok> = if c[1] == 0 { vec![push] } else { vec![Tok::Op(0x51), Tok::Op(rs::OP_IF), push, Tok::Op(rs::OP_ELSE), Tok::Op(0x00), Tok::Op(rs::OP_ENDIF)] };
            eval_script(&toks, &e, FEW_LEGS, acc, case);
        }));
    }
    // 1a'. standard script shapes around ONE data element of every length 1..=N (a parser fast path that recognises a
    // shape must still choose the push opcode by the payload length)
    {
        let e = env.clone();
        let maxlen: u64 = if tier.is_thorough() { 1100 } else { 300 };
        let extra: Vec<u64> = vec![65535, 65536];
        let total = maxlen + extra.len() as u64;
        const NSHAPES: u64 = 8;
        v.push(Space::new("shape-x-push-length", NSHAPES * total, move |case, acc| {
            let c = coords(case.idx, &[NSHAPES, total]);
            let n = if c[1] < maxlen { c[1] + 1 } else { extra[(c[1] - maxlen) as usize] } as usize;
            let data: Vec<u8> = (0..n).map(|i| (i * 3 + 0xb1) as u8).collect();
            let d = rs::minimal_push(&data);
            let op = |b: u8| Tok::Op(b);
            let toks: Vec<Tok> = match c[0] {
                0 => vec![op(0x76), op(0xa9), d, op(0x88), op(0xac)],
                1 => vec![d, op(0xac)],
                2 => vec![op(0xa9), d, op(0x87)],
                3 => vec![op(0x6a), d],
                4 => vec![op(0x00), op(0x6a), d],
                5 => vec![d, op(0x75)],
                6 => vec![op(0x51), d.clone(), d, op(0x52), op(0xae)],
                _ => vec![op(0x76), op(0xa9), d.clone(), op(0x88), op(0xad), op(0x76), op(0xa9), d, op(0x88), op(0xac)],
            };
            eval_script(&toks, &e, FEW_LEGS, acc, case);
        }));
    }
    // 1a''. conditional grammar: every token string of up to N symbols over {IF, NOTIF, ELSE, ENDIF, OP_1, push} - the
    // well-formed ones (several ELSE per block, empty branches, any nesting) are scripts the library holds
    {
        let e = env.clone();
        let syms: Vec<Tok> = vec![Tok::Op(rs::OP_IF), Tok::Op(0x64), Tok::Op(rs::OP_ELSE), Tok::Op(rs::OP_ENDIF), Tok::Op(0x51), Tok::Push(vec![0xaa, 0xbb])];
        let maxk: u32 = if tier.is_thorough() { 8 } else { 7 };
        let mut offsets = vec![0u64];
        for k in 0..=maxk {
            offsets.push(offsets[k as usize] + 6u64.pow(k));
        }
        let total = *offsets.last().unwrap();
        v.push(Space::new("cond-grammar", total, move |case, acc| {
            let k = offsets.iter().rposition(|o| *o <= case.idx).unwrap();
            let mut rem = case.idx - offsets[k];
            let mut toks = vec![Tok::Op(0x61); k];
            for i in (0..k).rev() {
                toks[i] = syms[(rem % 6) as usize].clone();
                rem /= 6;
            }
            eval_script(&toks, &e, FEW_LEGS, acc, case);
        }));
    }
    // 1a3. nesting sweep: d nested conditionals for every d in 1..=N, IF / NOTIF, with / without ELSE at every level
    {
        let e = env.clone();
        let dmax: u64 = if tier.is_thorough() { 120 } else { 40 };
        v.push(Space::new("nesting-sweep", dmax * 4, move |case, acc| {
            let c = coords(case.idx, &[dmax, 4]);
            let d = c[0] as usize + 1;
            let (notif, with_else) = (c[1] & 1 == 1, c[1] & 2 == 2);
            let mut toks: Vec<Tok> = vec![];
            for lvl in 0..d {
                toks.push(Tok::Op(if notif { 0x64 } else { rs::OP_IF }));
                toks.push(Tok::Push(vec![lvl as u8, 0xaa]));
            }
            for lvl in (0..d).rev() {
                if with_else {
                    toks.push(Tok::Op(rs::OP_ELSE));
                    toks.push(Tok::Op(0x52 + (lvl % 8) as u8));
                }
                toks.push(Tok::Op(rs::OP_ENDIF));
            }
            eval_script(&toks, &e, FEW_LEGS, acc, case);
        }));
    }
    // 1a4. every opcode the library names at every position of every conditional skeleton of up to 3 (4) symbols
    {
        let e = env.clone();
        let holes = super::skeleton_holes(if tier.is_thorough() { 4 } else { 3 });
        let nh = holes.len() as u64;
        let ops: Vec<u8> = env.plain_ops();
        let no = ops.len() as u64;
        v.push(Space::new("opcode-in-skeleton", nh * no, move |case, acc| {
            let c = coords(case.idx, &[nh, no]);
            let (pre, post) = &holes[c[0] as usize];
            let mut toks: Vec<Tok> = pre.iter().map(|b| Tok::Op(*b)).collect();
            toks.push(Tok::Op(ops[c[1] as usize]));
            toks.extend(post.iter().map(|b| Tok::Op(*b)));
            eval_script(&toks, &e, FEW_LEGS, acc, case);
        }));
    }
    // 1b. every ordered pair over the sub-alphabet
    {
        let e = env.clone();
        let alpha = Arc::new(pair_alphabet(&env, tier));
        let n = alpha.len() as u64;
        v.push(Space::new("pair", n * n, move |case, acc| {
            let c = coords(case.idx, &[n, n]);
            let toks = vec![alpha[c[0] as usize].clone(), alpha[c[1] as usize].clone()];
            if case.idx == n + 4 {
                acc.sample(case.idx, || json!({"space": "pair", "elements": describe(&toks)}));
            }
            eval_script(&toks, &e, if n > 64 { FEW_LEGS } else { ALL_LEGS }, acc, case);
        }));
    }
    // 1c. conditional skeletons to depth 3
    {
        let e = env.clone();
        let thorough = tier.is_thorough();
        let skel = Arc::new(Skel::new(3, thorough));
        let nblocks = skel.blocks(3);
        let leaves = Arc::new(cond_leaves());
        let mut openers: Vec<u8> = vec![];
        for b in [rs::OP_IF, rs::OP_NOTIF] {
            if env.openers.contains(&b) {
                openers.push(b);
            }
        }
        for b in &env.openers {
            if !openers.contains(b) {
                openers.push(*b);
            }
        }
        if openers.is_empty() {
            openers.push(rs::OP_IF);
        }
        let openers = Arc::new(openers);
        let nf = leaves.len() as u64;
        let ng = if thorough { openers.len().min(2) } else { openers.len() } as u64;
        let nw: u64 = if thorough { 2 } else { 4 };
        v.push(Space::new("cond", nblocks * nf * ng * nw, move |case, acc| {
            let c = coords(case.idx, &[nblocks, nf, ng, nw]);
            let mut st = Fill { leaves: &leaves, openers: &openers, li: c[1] as usize, oi: c[2] as usize };
            let mut toks = vec![];
            // wrappers: block | leaf block | block leaf | block block'
            if c[3] == 1 {
                st.leaf(&mut toks);
            }
            skel.block(3, c[0], &mut st, &mut toks);
            if c[3] == 2 {
                st.leaf(&mut toks);
            }
            if c[3] == 3 {
                skel.block(3, (c[0] * 7 + 3) % nblocks, &mut st, &mut toks);
            }
            if case.idx == 4321 * nf * ng * nw {
                acc.sample(case.idx, || json!({"space": "cond", "script_hex": hx(&rs::serialize(&toks))}));
            }
            eval_script(&toks, &e, if thorough { FEW_LEGS } else { ALL_LEGS }, acc, case);
        }));
    }
    // 2. extended rendering of non-minimal pushes (the clause is not limited to minimal ones)
    {
        let e = env.clone();
        let mut cases: Vec<Vec<Tok>> = vec![];
        for (form, lens) in [(0x4cu8, vec![0usize, 1, 2, 75]), (0x4d, vec![0, 1, 75, 76, 255]), (0x4e, vec![0, 1, 75, 76, 255, 256, 65535])] {
            for n in lens {
                for k in [2u64, 3] {
                    cases.push(vec![Tok::PushData(form, long_content(k, n))]);
                    cases.push(vec![Tok::Op(0x51), Tok::PushData(form, long_content(k, n)), Tok::Op(0x52)]);
                }
            }
        }
        v.push(Space::new("extended-nonminimal", cases.len() as u64, move |case, acc| {
            let toks = &cases[case.idx as usize];
            acc.evaluations += 1;
            acc.transitions += 1;
            let bytes = rs::serialize(toks);
            let mut found = Found::new(case);
            let cls = match guard(|| Script::from_bytes(&bytes)) {
                Ok(Ok(s)) => {
                    acc.nontrivial_structural += 1;
                    eval_extended(&s, toks, &e, &mut found, acc)
                }
                _ => {
                    acc.bump("premise_script_rejected_by_from_bytes", 1);
                    99
                }
            };
            acc.outcome(&[b'x', cls, toks.len() as u8]);
            if case.idx == 9 {
                acc.sample(case.idx, || json!({"space": "extended-nonminimal", "elements": describe(toks)}));
            }
            found.flush(acc, case, || json!({"script_hex": hx(&bytes), "elements": describe(toks)}));
        }));
    }
    // 3a. token classes
    {
        let cases = Arc::new(text_cases(&env));
        v.push(Space::new("tokens", cases.len() as u64, move |case, acc| {
            let tc = &cases[case.idx as usize];
            if case.idx == 300 {
                acc.sample(case.idx, || json!({"space": "tokens", "asm": trunc_s(&tc.text), "class": tc.class}));
            }
            eval_text(tc, acc, case);
        }));
    }
    // 3b. the same token sequence under every separator x leading x trailing whitespace
    {
        let e = env.clone();
        let scripts = Arc::new(ws_scripts(&env));
        let (ns, nsep, nl, nt) = (scripts.len() as u64, SEPS.len() as u64, LEADS.len() as u64, TRAILS.len() as u64);
        v.push(Space::new("whitespace", ns * nsep * nl * nt, move |case, acc| {
            let c = coords(case.idx, &[ns, nsep, nl, nt]);
            let toks = &scripts[c[0] as usize];
            let want = P::Ok(rs::serialize(toks));
            let text = format!("{}{}{}", LEADS[c[2] as usize], ref_asm_tokens(toks, &e).join(SEPS[c[1] as usize]), TRAILS[c[3] as usize]);
            acc.evaluations += 1;
            acc.transitions += 1;
            acc.traces += 1;
            acc.nontrivial_structural += 1;
            let got = parse(&text);
            acc.outcome(&[b'w', matches!(got, P::Ok(_)) as u8, (got == want) as u8]);
            if let Some(k) = ws_divergence(&want, &got) {
                violate_lazy(acc, &k, case.idx, || (case.json(json!({"asm": text, "separator": SEPS[c[1] as usize], "leading": LEADS[c[2] as usize], "trailing": TRAILS[c[3] as usize]})), format!("{} instead of {}", show_p(&got), show_p(&want))));
            }
        }));
    }
    // 3c. whitespace-only input: must not produce a non-empty script
    v.push(Space::new("whitespace-only", WS_ONLY.len() as u64, move |case, acc| {
        let text = WS_ONLY[case.idx as usize];
        acc.evaluations += 1;
        acc.transitions += 1;
        acc.traces += 1;
        let got = parse(text);
        acc.outcome(&[b'o', matches!(got, P::Ok(_)) as u8]);
        let key = match &got {
            P::Ok(b) if b.is_empty() => None,
            P::Err(_) => None, // whether an empty text is a script is left open
            P::Ok(b) if b.iter().all(|x| *x == 0) => Some("C17/parse/kind=whitespace-run-becomes-empty-push".to_string()),
            P::Ok(_) => Some("C17/parse/kind=whitespace-changes-script".to_string()),
            P::Panic(p) => Some(format!("C17/from_asm_string/kind=panic@{}", panic_site(p))),
        };
        if let Some(k) = key {
            acc.violate(k, case.idx, case.json(json!({"asm": text})), format!("{} for a text without tokens", show_p(&got)));
        } else {
            acc.nontrivial_structural += 1;
        }
    }));
    // 4. render - mutate - render: the rendering must describe the script as it is NOW. One Script object is rendered
    // (nothing / plain / extended / both), changed through a public mutator, and rendered again: both renderings must be
    // those of a freshly parsed copy of the object's current bytes, and the plain one must parse back to those bytes
    {
        let bases: Arc<Vec<Vec<u8>>> = Arc::new(vec![
            vec![0x51, 0x63, 0xab, 0x76, 0x67, 0xab, 0x75, 0x68, 0xac],
            vec![0x51, 0x63, 0x51, 0x64, 0x52, 0xab, 0x68, 0x67, 0x53, 0x68, 0xac],
            vec![0xab, 0x51, 0x63, 0xab, 0x68, 0xab, 0xac],
            vec![0x76, 0xa9, 0x02, 0xab, 0xab, 0x88, 0xac],
            vec![0x76, 0xab, 0xac],
            vec![0x51, 0x63, 0x52, 0x67, 0x68],
            vec![],
        ]);
        const MUTATORS: [&str; 6] = ["remove_codeseparators", "push(OP_1)", "push(OP_CODESEPARATOR)", "push(data 2a2b)", "push_array([OP_2, data ab])", "remove_codeseparators twice"];
        let nb = bases.len() as u64;
        v.push(Space::new("render-mutate-render", nb * 4 * MUTATORS.len() as u64 * MUTATORS.len() as u64, move |case, acc| {
            let nm = MUTATORS.len() as u64;
            let c = coords(case.idx, &[nb, 4, nm, nm]);
            let base = &bases[c[0] as usize];
            acc.evaluations += 1;
            acc.transitions += 8;
            acc.traces += 1;
            let input = || json!({"script_hex": hx(base), "rendered_before": (["nothing", "plain", "extended", "both"][c[1] as usize]), "mutators": [MUTATORS[c[2] as usize], MUTATORS[c[3] as usize]]});
            let apply = |s: &mut Script, m: u64| match m {
                0 => s.remove_codeseparators(),
                1 => s.push(bsv::ScriptBit::OpCode(bsv::OpCodes::OP_1)),
                2 => s.push(bsv::ScriptBit::OpCode(bsv::OpCodes::OP_CODESEPARATOR)),
                3 => s.push(bsv::ScriptBit::Push(vec![0x2a, 0x2b])),
                4 => s.push_array(&[bsv::ScriptBit::OpCode(bsv::OpCodes::OP_2), bsv::ScriptBit::Push(vec![0xab])]),
                _ => {
                    s.remove_codeseparators();
                    s.remove_codeseparators();
                }
            };
            let r = guard(|| {
                let mut s = Script::from_bytes(base).map_err(|e| e.to_string())?;
                let render = |s: &Script, mode: u64| {
                    if mode & 1 == 1 {
                        let _ = s.to_asm_string();
                    }
                    if mode & 2 == 2 {
                        let _ = s.to_extended_asm_string();
                    }
                };
                render(&s, c[1]);
                apply(&mut s, c[2]);
                render(&s, c[1]);
                apply(&mut s, c[3]);
                let now = s.to_bytes();
                let fresh = Script::from_bytes(&now).map_err(|e| e.to_string())?;
                Ok::<_, String>((now, s.to_asm_string(), s.to_extended_asm_string(), fresh.to_asm_string(), fresh.to_extended_asm_string()))
            });
            match r {
                Err(p) => acc.violate(format!("C17/render-mutate-render/kind=panic@{}", panic_site(&p)), case.idx, case.json(input()), p),
                Ok(Err(_)) => {
                    acc.bump("render_mutate_render_premise_rejected", 1);
                    acc.outcome(b"rmr-reject");
                }
                Ok(Ok((now, plain, ext, fplain, fext))) => {
                    acc.nontrivial_structural += 1;
                    acc.states_structural += 1;
                    acc.outcome(&[b'r', now.len() as u8]);
                    if plain != fplain {
                        acc.violate("C17/render-mutate-render/kind=plain-rendering-is-not-that-of-the-current-script", case.idx, case.json(input()), format!("object renders {:?}, a fresh parse of its bytes {} renders {:?}", trunc_s(&plain), hx(&now), trunc_s(&fplain)));
                    } else if ext != fext {
                        acc.violate("C17/render-mutate-render/kind=extended-rendering-is-not-that-of-the-current-script", case.idx, case.json(input()), format!("object renders {:?}, a fresh parse of its bytes {} renders {:?}", trunc_s(&ext), hx(&now), trunc_s(&fext)));
                    } else if let P::Ok(b2) = parse(&plain) {
                        if b2 != now {
                            acc.violate("C17/render-mutate-render/kind=rendering-parses-to-other-bytes", case.idx, case.json(input()), format!("{:?} parses to {}, the script is {}", trunc_s(&plain), hx(&b2), hx(&now)));
                        }
                    }
                }
            }
        }));
    }
    // 5. published opcode names: the rendering of every opcode the library implements is one of the names the published
    // opcode tables give that byte, and a published name the parser accepts denotes the byte it is published for
    {
        let e = env.clone();
        v.push(Space::new("published-opcode-names", 256, move |case, acc| {
            let b = case.idx as u8;
            acc.evaluations += 1;
            let names = published_names(b);
            if names.is_empty() || !e.ops[b as usize] {
                acc.outcome(b"name-not-judged");
                return;
            }
            acc.nontrivial_structural += 1;
            acc.transitions += 1 + names.len() as u64;
            acc.traces += 1;
            // rendering (standing alone where the byte can; block opcodes inside the smallest block)
            let bytes: Vec<u8> = if e.openers.contains(&b) {
                vec![b, rs::OP_ENDIF]
            } else if b == rs::OP_ELSE {
                vec![0x63, b, rs::OP_ENDIF]
            } else if b == rs::OP_ENDIF {
                vec![0x63, b]
            } else if (0x4c..=0x4e).contains(&b) {
                return;
            } else {
                vec![b]
            };
            if let Ok(Ok(s)) = guard(|| Script::from_bytes(&bytes)) {
                if let Ok(text) = guard(|| s.to_asm_string()) {
                    acc.outcome(text.as_bytes());
                    let toks: Vec<&str> = text.split_whitespace().collect();
                    let pos = if b == rs::OP_ENDIF || b == rs::OP_ELSE { 1 } else { 0 };
                    match toks.get(pos) {
                        Some(t) if names.contains(t) => {}
                        other => acc.violate("C17/opcode-name/kind=rendering-is-not-a-published-name", case.idx, case.json(json!({"opcode_byte": format!("{:02x}", b), "published": names})), format!("rendered {:?} (whole text {:?})", other, trunc_s(&text))),
                    }
                }
            }
            for n in names.iter().filter(|n| n.starts_with("OP_")) {
                if let P::Ok(got) = parse(&format!("OP_1 {} OP_1", n)) {
                    // accepted: it has to denote this byte (conditionals re-nest, so only the presence of the byte is asked)
                    let alone = got.len() == 3 && got[1] == b;
                    if !alone && !got.contains(&b) {
                        acc.violate("C17/opcode-name/kind=published-name-parses-to-another-opcode", case.idx, case.json(json!({"opcode_byte": format!("{:02x}", b), "name": n})), format!("\"OP_1 {} OP_1\" parses to {}", n, hx(&got)));
                    }
                } else {
                    acc.bump("published_opcode_names_not_accepted_by_the_parser(not judged)", 1);
                }
            }
        }));
    }
    v
}

fn run(ctx: &Ctx) -> Report {
    let mut r = Report::new(
        "scripts built as reference token lists, serialised by refs::script and handed to Script::from_bytes: every element of the alphabet alone, every ordered pair over the sub-alphabet, every conditional skeleton to nesting depth 3 (branch = empty | leaf | block [| leaf block | block leaf in thorough]; ELSE part present or missing) x 4 leaf rotations x opener rotations x top-level wrappers; for each: from_asm_string(to_asm_string(s)) bytes == s bytes, extended rendering read by the harness reader, and the library's own rendering re-joined with every separator / leading / trailing whitespace must parse like the single-space form. Parser acceptance: every token class alone and between two opcodes against the reference token classifier; reference renderings x separators x leading x trailing whitespace (full product). Non-trivial = script accepted by from_bytes and compared (round trip + extended), or token verdict compared; cases are distinct by construction.",
    );
    let e = env();
    r.bounds = json!({
        "single_alphabet": {"opcodes": e.plain_ops().len(), "one_byte_pushes": 256, "two_byte_pushes_decimal_hex": 10000, "two_byte_pushes_other": TWO_BYTE_OTHERS.len(), "long_push_lengths": LONG_LENS, "contents_per_length": 4},
        "pair_alphabet_size": pair_alphabet(&e, ctx.tier).len(),
        "cond": {"max_depth": 3, "leaf_alphabet": describe(&cond_leaves()), "openers_learned": e.openers.iter().map(|b| format!("{:02x}", b)).collect::<Vec<_>>(), "branch_shapes_extras": ctx.tier.is_thorough()},
        "separators": SEPS, "leading": LEADS, "trailing": TRAILS,
        "deviation_bound": "n/a (full enumeration)"
    });
    r.assumptions.push("opcode set, block openers (library also nests OP_VERIF/OP_VERNOTIF) and opcode names are learned from the implementation".into());
    r.assumptions.push("tokens \"10\"..\"16\" are both numeric aliases and even-length hex: either parse counts as acceptance in the token leg; the round-trip leg decides (the statement demands identical bytes)".into());
    r.assumptions.push("not decided by the statement and only recorded (counters open_class/*): the names OP_PUSHDATA1/2/4 as tokens, openers/OP_ELSE/OP_ENDIF standing alone, whether a text without tokens is a script (only: it must not become a non-empty script), case-insensitive opcode names".into());
    r.assumptions.push("P2PKHAddress::get_locking_script/get_unlocking_script (built through the ASM parser) are not driven here: their 20/33/71-byte payloads never collide with an alias".into());
    run_spaces(ctx, &mut r, spaces(ctx.tier));
    r
}

fn replay(case: &Value) -> Vec<(String, String)> {
    replay_spaces(spaces, case)
}
