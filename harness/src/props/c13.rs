//! C13 — hashes, HMAC, PBKDF2 and the streaming digest adapters equal the
//! standard algorithms (reference: refs::hashes, bound to hashlib by selftest/xcheck).
use super::{hx, pattern, replay_spaces, run_spaces, Case, Prop, Space};
use crate::engine::{guard, panic_site, Acc, Ctx, Report, Tier};
use crate::refs::hashes::{self as rh, H};
use bsv::hash::hash160_digest::Hash160;
use bsv::hash::sha256d_digest::Sha256d;
use bsv::{Hash, PBKDF2Hashes, ReversibleDigest, Sha256r, KDF};
use digest::{FixedOutput, Reset, Update};
use serde_json::{json, Value};

pub const PROP: Prop = Prop {
    run,
    replay,
    spaces: Some(spaces),
    level_note: "trusted base: refs::hashes (FIPS 180-4 / RIPEMD-160 / RFC 2104 / RFC 8018 written from the standards, KAT-checked and cross-checked against Python hashlib by oracles/xcheck.py); values outside the stated length/pattern alphabets are not covered",
};

fn lib_hash(h: H, m: &[u8]) -> Vec<u8> {
    match h {
        H::Sha1 => Hash::sha_1(m),
        H::Sha256 => Hash::sha_256(m),
        H::Sha256d => Hash::sha_256d(m),
        H::Sha512 => Hash::sha_512(m),
        H::Ripemd160 => Hash::ripemd_160(m),
        H::Hash160 => Hash::hash_160(m),
    }
    .to_bytes()
}

fn lib_hmac(h: H, key: &[u8], m: &[u8]) -> Vec<u8> {
    match h {
        H::Sha1 => Hash::sha_1_hmac(m, key),
        H::Sha256 => Hash::sha_256_hmac(m, key),
        H::Sha256d => Hash::sha_256d_hmac(m, key),
        H::Sha512 => Hash::sha_512_hmac(m, key),
        H::Ripemd160 => Hash::ripemd_160_hmac(m, key),
        H::Hash160 => Hash::hash_160_hmac(m, key),
    }
    .to_bytes()
}

fn cmp(acc: &mut Acc, case: &Case, key: &str, input: Value, lib: Result<Vec<u8>, String>, want: &[u8]) {
    acc.evaluations += 1;
    acc.transitions += 1;
    acc.traces += 1;
    acc.nontrivial_structural += 1;
    match lib {
        Ok(got) => {
            acc.outcome(&got[..got.len().min(8)]);
            if got != want {
                acc.violate(format!("C13/{}/kind=wrong-result", key), case.idx, case.json(input), format!("library={} reference={}", hx(&got), hx(want)));
            }
        }
        Err(p) => {
            acc.outcome(b"panic");
            acc.violate(format!("C13/{}/kind=panic@{}", key, panic_site(&p)), case.idx, case.json(input), p);
        }
    }
}

const C13_LONG: [usize; 13] = [4095, 4097, 16385, 65535, 65536, 65537, 70000, 131073, (1 << 20) + 4097, 3_000_001, 4 * 1024 * 1024 + 7, 8 * 1024 * 1024 + 5, 16 * 1024 * 1024 + 1];
const HMAC_KLEN: [usize; 12] = [0, 1, 20, 32, 63, 64, 65, 100, 127, 128, 129, 200];
const HMAC_MLEN: [usize; 8] = [0, 1, 55, 56, 64, 65, 128, 200];
const PB_LEN: [usize; 5] = [0, 1, 64, 65, 129];
const PB_ITERS: [u32; 5] = [1, 2, 3, 10, 1000];
const PB_OUT: [usize; 12] = [0, 1, 19, 20, 21, 32, 33, 63, 64, 65, 100, 130];

#[derive(Clone, Copy)]
enum Adapter {
    R,
    D,
    H160,
}
const ADAPTERS: [Adapter; 3] = [Adapter::R, Adapter::D, Adapter::H160];

impl Adapter {
    fn name(self) -> &'static str {
        match self {
            Adapter::R => "Sha256r",
            Adapter::D => "Sha256d",
            Adapter::H160 => "Hash160",
        }
    }
    fn reference(self, m: &[u8], reversed: bool) -> Vec<u8> {
        let mut v = match self {
            Adapter::R => rh::sha256(m).to_vec(),
            Adapter::D => rh::sha256d(m).to_vec(),
            Adapter::H160 => rh::hash160(m).to_vec(),
        };
        if reversed {
            v.reverse();
        }
        v
    }
}

/// Feed `chunks` through the adapter's public digest traits.
/// mode 0: finalize_fixed; mode 1: finalize_fixed_reset and then hash `second` on the same object.
fn stream<D>(d0: D, reversed: bool, chunks: &[&[u8]], mode: u64, second: &[u8]) -> (Vec<u8>, Option<Vec<u8>>)
where
    D: Update + FixedOutput + Reset + Clone + ReversibleDigest,
{
    // mode 2 / 3: reverse() is called after the first chunk / after all chunks instead of up front
    let mut d = if reversed && mode < 2 { d0.reverse() } else { d0 };
    for (i, c) in chunks.iter().enumerate() {
        d.update(c);
        if reversed && mode == 2 && i == 0 {
            d = d.reverse();
        }
    }
    if reversed && mode == 3 {
        d = d.reverse();
    }
    if mode >= 2 {
        return (d.finalize_fixed().to_vec(), None);
    }
    if mode == 0 {
        (d.finalize_fixed().to_vec(), None)
    } else {
        let first = d.finalize_fixed_reset().to_vec();
        d.update(second);
        let again = d.finalize_fixed().to_vec();
        (first, Some(again))
    }
}

fn run_adapter(a: Adapter, reversed: bool, chunks: &[&[u8]], mode: u64, second: &[u8]) -> (Vec<u8>, Option<Vec<u8>>) {
    match a {
        Adapter::R => stream(Sha256r::default(), reversed, chunks, mode, second),
        Adapter::D => stream(Sha256d::default(), reversed, chunks, mode, second),
        Adapter::H160 => stream(Hash160::default(), reversed, chunks, mode, second),
    }
}

fn split_by_mask<'a>(m: &'a [u8], mask: u64) -> Vec<&'a [u8]> {
    let mut out = vec![];
    let mut start = 0;
    for i in 1..m.len() {
        if mask >> (i - 1) & 1 == 1 {
            out.push(&m[start..i]);
            start = i;
        }
    }
    out.push(&m[start..]);
    out
}

fn adapter_check(acc: &mut Acc, case: &Case, a: Adapter, reversed: bool, msg: &[u8], chunks: Vec<&[u8]>, mode: u64, desc: Value) {
    let second = pattern(4, 70);
    let want = a.reference(msg, reversed);
    let want2 = a.reference(&second, reversed);
    let res = guard(|| run_adapter(a, reversed, &chunks, mode, &second));
    let keybase = format!("adapter={}", a.name());
    match res {
        Ok((first, again)) => {
            cmp(acc, case, &format!("{}/finalize", keybase), desc.clone(), Ok(first), &want);
            if let Some(ag) = again {
                cmp(acc, case, &format!("{}/reuse-after-reset", keybase), desc, Ok(ag), &want2);
            }
        }
        Err(p) => cmp(acc, case, &keybase, desc, Err(p), &want),
    }
}

/// Operation histories on ONE adapter object against a two-field model (absorbed bytes, reversed flag).
/// ops: 0 update(1 byte), 1 update(70 bytes), 2 reverse(), 3 reset, 4 finalize-and-reset (output compared), 5 clone and continue.
/// view: 0 = Update/FixedOutput/Reset traits, 1 = the blanket digest::Digest trait, 2 = through &mut dyn DynDigest.
fn history<D>(d0: D, ops: &[u8], view: u64, reference: &dyn Fn(&[u8], bool) -> Vec<u8>) -> Result<(), String>
where
    D: Update + FixedOutput + Reset + Clone + Default + ReversibleDigest + 'static,
{
    let (a, b) = (vec![0x61u8], pattern(3, 70));
    let mut d = d0;
    let (mut buf, mut rev): (Vec<u8>, bool) = (vec![], false);
    for (i, op) in ops.iter().enumerate() {
        match op {
            0 | 1 => {
                let x = if *op == 0 { &a } else { &b };
                buf.extend_from_slice(x);
                match view {
                    0 => Update::update(&mut d, x),
                    1 => digest::Digest::update(&mut d, x),
                    _ => {
                        let dd: &mut dyn digest::DynDigest = &mut d;
                        dd.update(x)
                    }
                }
            }
            2 => {
                d = d.reverse();
                rev = true;
            }
            3 => {
                buf.clear();
                match view {
                    0 => Reset::reset(&mut d),
                    1 => digest::Digest::reset(&mut d),
                    _ => {
                        let dd: &mut dyn digest::DynDigest = &mut d;
                        dd.reset()
                    }
                }
            }
            4 => {
                let out: Vec<u8> = match view {
                    0 => d.finalize_fixed_reset().to_vec(),
                    1 => digest::Digest::finalize_reset(&mut d).to_vec(),
                    _ => {
                        let dd: &mut dyn digest::DynDigest = &mut d;
                        dd.finalize_reset().to_vec()
                    }
                };
                let want = reference(&buf, rev);
                if out != want {
                    return Err(format!("output of step {} (finalize-and-reset) = {} but the model (absorbed {} bytes, reversed={}) gives {}", i, hx(&out), buf.len(), rev, hx(&want)));
                }
                buf.clear();
            }
            _ => {
                let c = d.clone();
                d = c;
            }
        }
    }
    let out: Vec<u8> = match view {
        0 => d.finalize_fixed().to_vec(),
        1 => digest::Digest::finalize(d).to_vec(),
        _ => {
            let dd: Box<dyn digest::DynDigest> = Box::new(d);
            dd.finalize().to_vec()
        }
    };
    let want = reference(&buf, rev);
    if out != want {
        return Err(format!("final output = {} but the model (absorbed {} bytes, reversed={}) gives {}", hx(&out), buf.len(), rev, hx(&want)));
    }
    Ok(())
}

const HIST_OPS: [&str; 6] = ["update(1)", "update(70)", "reverse", "reset", "finalize_reset", "clone"];

pub fn spaces(tier: Tier) -> Vec<Space> {
    let mut v = vec![];
    let maxlen: u64 = if tier.is_thorough() { 20000 } else { 1100 };
    // 1. one-shot digests: hash × every length 0..=maxlen × 4 patterns
    v.push(Space::new("oneshot", 6 * (maxlen + 1) * 4, move |case, acc| {
        let c = crate::engine::coords(case.idx, &[6, maxlen + 1, 4]);
        let h = rh::ALL[c[0] as usize];
        let m = pattern(c[2], c[1] as usize);
        let want = rh::hash(h, &m);
        let lib = guard(|| lib_hash(h, &m));
        acc.sample(case.idx, || json!({"space": "oneshot", "hash": h.name(), "len": c[1], "pattern": c[2]}));
        cmp(acc, case, &format!("fn={}", h.name()), json!({"hash": h.name(), "msg": hx(&m)}), lib, &want);
    }));
    // 2. HMAC: 6 variants × key lengths × message lengths × 2 patterns
    v.push(Space::new("hmac", 6 * 12 * 8 * 2, |case, acc| {
        let c = crate::engine::coords(case.idx, &[6, 12, 8, 2]);
        let h = rh::ALL[c[0] as usize];
        let key = pattern(2 + c[3] * 3, HMAC_KLEN[c[1] as usize]);
        let msg = pattern(4 + c[3], HMAC_MLEN[c[2] as usize]);
        let want = rh::hmac(h, &key, &msg);
        let lib = guard(|| lib_hmac(h, &key, &msg));
        cmp(acc, case, &format!("fn=hmac-{}", h.name()), json!({"hash": h.name(), "key": hx(&key), "msg": hx(&msg)}), lib, &want);
    }));
    // 2a. HMAC key-length sweep: every key length 0..=N (both block sizes and their neighbours are interior points), 6 variants,
    // three message lengths
    {
        let maxk: u64 = if tier.is_thorough() { 1100 } else { 300 };
        v.push(Space::new("hmac-key-length-sweep", 6 * (maxk + 1) * 3, move |case, acc| {
            let c = crate::engine::coords(case.idx, &[6, maxk + 1, 3]);
            let h = rh::ALL[c[0] as usize];
            let key = pattern(2, c[1] as usize);
            let msg = pattern(4, [0usize, 13, 200][c[2] as usize]);
            let want = rh::hmac(h, &key, &msg);
            let lib = guard(|| lib_hmac(h, &key, &msg));
            cmp(acc, case, &format!("fn=hmac-{}", h.name()), json!({"hash": h.name(), "key_len": key.len(), "msg_len": msg.len()}), lib, &want);
        }));
    }
    // 3. PBKDF2
    let hs = [(H::Sha1, 0u8), (H::Sha256, 1), (H::Sha512, 2)];
    v.push(Space::new("pbkdf2", 3 * 5 * 5 * 5 * 12, move |case, acc| {
        let c = crate::engine::coords(case.idx, &[3, 5, 5, 5, 12]);
        let (h, code) = hs[c[0] as usize];
        let pw = pattern(2, PB_LEN[c[1] as usize]);
        let salt = pattern(5, PB_LEN[c[2] as usize]);
        let iters = PB_ITERS[c[3] as usize];
        let outlen = PB_OUT[c[4] as usize];
        // 1000-iteration cases only with the two extreme password lengths to bound cost
        if iters == 1000 && !(c[1] == 0 || c[1] == 4) {
            return;
        }
        let want = rh::pbkdf2(h, &pw, &salt, iters, outlen);
        let algo = match code {
            0 => PBKDF2Hashes::SHA1,
            1 => PBKDF2Hashes::SHA256,
            _ => PBKDF2Hashes::SHA512,
        };
        let lib = guard(|| {
            let k = KDF::pbkdf2(&pw, Some(salt.clone()), algo, iters, outlen);
            let mut out = k.get_hash().to_bytes();
            // the salt accessor must hand back the salt that was used
            if k.get_salt() != salt {
                out.push(0xEE);
            }
            out
        });
        cmp(
            acc,
            case,
            &format!("fn=pbkdf2-{}", h.name()),
            json!({"hash": h.name(), "password": hx(&pw), "salt": hx(&salt), "iterations": iters, "out_len": outlen}),
            lib,
            &want,
        );
    }));
    // 3a. PBKDF2 password- and salt-length sweeps: every length 0..=N, 3 hashes, iterations {1, 3}, two output lengths
    {
        let maxp: u64 = if tier.is_thorough() { 600 } else { 300 };
        v.push(Space::new("pbkdf2-length-sweep", 3 * (maxp + 1) * 2 * 2 * 2, move |case, acc| {
            let c = crate::engine::coords(case.idx, &[3, maxp + 1, 2, 2, 2]);
            let (h, code) = hs[c[0] as usize];
            let (pw, salt) = if c[2] == 0 { (pattern(2, c[1] as usize), pattern(5, 8)) } else { (pattern(2, 11), pattern(5, c[1] as usize)) };
            let iters = [1u32, 3][c[3] as usize];
            let outlen = [20usize, 65][c[4] as usize];
            let want = rh::pbkdf2(h, &pw, &salt, iters, outlen);
            let algo = match code {
                0 => PBKDF2Hashes::SHA1,
                1 => PBKDF2Hashes::SHA256,
                _ => PBKDF2Hashes::SHA512,
            };
            let lib = guard(|| KDF::pbkdf2(&pw, Some(salt.clone()), algo, iters, outlen).get_hash().to_bytes());
            cmp(acc, case, &format!("fn=pbkdf2-{}", h.name()), json!({"hash": h.name(), "password_len": pw.len(), "salt_len": salt.len(), "iterations": iters, "out_len": outlen}), lib, &want);
        }));
    }
    // 3b. two-argument call histories with a shifted boundary: one 12-byte string S is cut at i into (password, salt) /
    // (key, message), the function is called, then S is cut at j != i and the function is called again. The two calls
    // have the same concatenated bytes and (for most pairs) nothing else in common; both answers must be the reference's.
    {
        const S_LEN: u64 = 12;
        v.push(Space::new("pbkdf2-boundary-shift-histories", 3 * (S_LEN + 1) * (S_LEN + 1), move |case, acc| {
            let c = crate::engine::coords(case.idx, &[3, S_LEN + 1, S_LEN + 1]);
            if c[1] == c[2] {
                return;
            }
            let (h, code) = hs[c[0] as usize];
            let sbytes = pattern(7, S_LEN as usize);
            let algo = || match code {
                0 => PBKDF2Hashes::SHA1,
                1 => PBKDF2Hashes::SHA256,
                _ => PBKDF2Hashes::SHA512,
            };
            let cut = |k: u64| (sbytes[..k as usize].to_vec(), sbytes[k as usize..].to_vec());
            let ((p1, s1), (p2, s2)) = (cut(c[1]), cut(c[2]));
            let mut want = rh::pbkdf2(h, &p1, &s1, 2, 40);
            want.extend(rh::pbkdf2(h, &p2, &s2, 2, 40));
            let lib = guard(|| {
                let mut a = KDF::pbkdf2(&p1, Some(s1.clone()), algo(), 2, 40).get_hash().to_bytes();
                a.extend(KDF::pbkdf2(&p2, Some(s2.clone()), algo(), 2, 40).get_hash().to_bytes());
                a
            });
            cmp(acc, case, &format!("fn=pbkdf2-{}/after-call-with-shifted-boundary", h.name()), json!({"hash": h.name(), "string": hx(&sbytes), "first_cut": c[1], "second_cut": c[2], "iterations": 2, "out_len": 40}), lib, &want);
        }));
        v.push(Space::new("hmac-boundary-shift-histories", 6 * (S_LEN + 1) * (S_LEN + 1), move |case, acc| {
            let c = crate::engine::coords(case.idx, &[6, S_LEN + 1, S_LEN + 1]);
            if c[1] == c[2] {
                return;
            }
            let h = rh::ALL[c[0] as usize];
            let sbytes = pattern(7, S_LEN as usize);
            let cut = |k: u64| (sbytes[..k as usize].to_vec(), sbytes[k as usize..].to_vec());
            let ((k1, m1), (k2, m2)) = (cut(c[1]), cut(c[2]));
            let mut want = rh::hmac(h, &k1, &m1);
            want.extend(rh::hmac(h, &k2, &m2));
            let lib = guard(|| {
                let mut a = lib_hmac(h, &k1, &m1);
                a.extend(lib_hmac(h, &k2, &m2));
                a
            });
            cmp(acc, case, &format!("fn=hmac-{}/after-call-with-shifted-boundary", h.name()), json!({"hash": h.name(), "string": hx(&sbytes), "first_cut": c[1], "second_cut": c[2]}), lib, &want);
        }));
    }
    v.push(Space::new("pbkdf2-2048", 3, move |case, acc| {
        let (h, code) = hs[case.idx as usize];
        let pw = b"correct horse battery staple".to_vec();
        let salt = b"mnemonic".to_vec();
        let want = rh::pbkdf2(h, &pw, &salt, 2048, 64);
        let algo = match code {
            0 => PBKDF2Hashes::SHA1,
            1 => PBKDF2Hashes::SHA256,
            _ => PBKDF2Hashes::SHA512,
        };
        let lib = guard(|| KDF::pbkdf2(&pw, Some(salt.clone()), algo, 2048, 64).get_hash().to_bytes());
        cmp(acc, case, &format!("fn=pbkdf2-{}", h.name()), json!({"hash": h.name(), "iterations": 2048}), lib, &want);
    }));
    // 4. all 2^(n-1) chunkings of inputs of length n<=12, each adapter, plain and reversed, finalize and finalize_reset+reuse
    let maxn: u64 = if tier.is_thorough() { 16 } else { 12 };
    let mut table: Vec<(u64, u64)> = vec![(0, 0)];
    for n in 1..=maxn {
        for mask in 0..(1u64 << (n - 1)) {
            table.push((n, mask));
        }
    }
    let tlen = table.len() as u64;
    v.push(Space::new("chunkings", 3 * 2 * 4 * tlen, move |case, acc| {
        let c = crate::engine::coords(case.idx, &[3, 2, 4, tlen]);
        let a = ADAPTERS[c[0] as usize];
        let (n, mask) = table[c[3] as usize];
        let msg = pattern(2, n as usize);
        let chunks = split_by_mask(&msg, mask);
        acc.sample(case.idx, || json!({"space": "chunkings", "adapter": a.name(), "reversed": c[1] == 1, "n": n, "cut_mask": mask}));
        adapter_check(acc, case, a, c[1] == 1, &msg, chunks, c[2], json!({"adapter": a.name(), "reversed": c[1] == 1, "mode": c[2], "msg": hx(&msg), "cut_mask": mask}));
    }));
    // 4a. operation histories: every sequence of up to N operations over {update(1), update(70), reverse, reset,
    // finalize-and-reset, clone} on one adapter object, through three trait views, against the (bytes, flag) model
    {
        let maxd: u32 = if tier.is_thorough() { 8 } else { 5 };
        let mut offsets = vec![0u64];
        for k in 0..=maxd {
            offsets.push(offsets[k as usize] + 6u64.pow(k));
        }
        let total = *offsets.last().unwrap();
        v.push(Space::new("adapter-histories", 3 * 3 * total, move |case, acc| {
            let c = crate::engine::coords(case.idx, &[3, 3, total]);
            let a = ADAPTERS[c[0] as usize];
            let view = c[1];
            let k = offsets.iter().rposition(|o| *o <= c[2]).unwrap();
            let mut rem = c[2] - offsets[k];
            let mut ops = vec![0u8; k];
            for i in (0..k).rev() {
                ops[i] = (rem % 6) as u8;
                rem /= 6;
            }
            acc.evaluations += 1;
            acc.transitions += k as u64 + 1;
            acc.traces += 1;
            acc.nontrivial_structural += 1;
            let reference = move |m: &[u8], r: bool| a.reference(m, r);
            let res = guard(|| match a {
                Adapter::R => history(Sha256r::default(), &ops, view, &reference),
                Adapter::D => history(Sha256d::default(), &ops, view, &reference),
                Adapter::H160 => history(Hash160::default(), &ops, view, &reference),
            });
            let names: Vec<&str> = ops.iter().map(|o| HIST_OPS[*o as usize]).collect();
            let viewname = ["Update/FixedOutput/Reset", "digest::Digest", "dyn DynDigest"][view as usize];
            let input = json!({"adapter": a.name(), "view": viewname, "ops": names});
            match res {
                Ok(Ok(())) => acc.outcome(&[ops.contains(&2) as u8, ops.contains(&4) as u8]),
                Ok(Err(e)) => {
                    acc.outcome(b"diverges");
                    acc.violate(format!("C13/adapter={}/history/kind=differs-from-model", a.name()), case.idx, case.json(input), e)
                }
                Err(p) => acc.violate(format!("C13/adapter={}/history/kind=panic@{}", a.name(), panic_site(&p)), case.idx, case.json(input), p),
            }
        }));
    }
    // 4b. long messages: interior lengths up to 3 MB for every one-shot digest and through every adapter (one piece, and 64 KiB + rest)
    v.push(Space::new("long-messages", C13_LONG.len() as u64 * 9, |case, acc| {
        let c = crate::engine::coords(case.idx, &[C13_LONG.len() as u64, 9]);
        let m = pattern(2, C13_LONG[c[0] as usize]);
        if c[1] < 6 {
            let h = rh::ALL[c[1] as usize];
            let want = rh::hash(h, &m);
            let lib = guard(|| lib_hash(h, &m));
            cmp(acc, case, &format!("fn={}", h.name()), json!({"hash": h.name(), "msg_len": m.len()}), lib, &want);
        } else {
            let a = ADAPTERS[(c[1] - 6) as usize];
            for (reversed, cut) in [(false, m.len()), (true, 65536.min(m.len())), (false, 65537.min(m.len()))] {
                let chunks: Vec<&[u8]> = if cut == m.len() { vec![&m[..]] } else { vec![&m[..cut], &m[cut..]] };
                adapter_check(acc, case, a, reversed, &m, chunks, 0, json!({"adapter": a.name(), "reversed": reversed, "msg_len": m.len(), "first_piece": cut}));
            }
        }
    }));
    // 5. every placement of two cut points in an input of length 130 (three for thorough on a coarser grid)
    let l = 130usize;
    let mut cuts: Vec<Vec<usize>> = vec![];
    for i in 0..=l {
        for j in i..=l {
            cuts.push(vec![i, j]);
        }
    }
    if tier.is_thorough() {
        for i in 0..=l {
            for j in i..=l {
                for k in j..=l {
                    cuts.push(vec![i, j, k]);
                }
            }
        }
    }
    let ncuts = cuts.len() as u64;
    v.push(Space::new("cuts130", 3 * 2 * ncuts, move |case, acc| {
        let c = crate::engine::coords(case.idx, &[3, 2, ncuts]);
        let a = ADAPTERS[c[0] as usize];
        let msg = pattern(2, l);
        let cs = &cuts[c[2] as usize];
        let mut chunks: Vec<&[u8]> = vec![];
        let mut start = 0;
        for &p in cs {
            chunks.push(&msg[start..p]);
            start = p;
        }
        chunks.push(&msg[start..]);
        adapter_check(acc, case, a, c[1] == 1, &msg, chunks, 0, json!({"adapter": a.name(), "reversed": c[1] == 1, "cuts": cs}));
    }));
    v
}

fn run(ctx: &Ctx) -> Report {
    let mut r = Report::new(
        "full cartesian products: 6 one-shot digests × every message length 0..=L × 4 byte patterns; 6 HMAC variants × 12 key lengths × 8 message lengths × 2 patterns; PBKDF2 3 hashes × password/salt lengths × iterations × 12 output lengths; all 2^(n-1) chunkings of every input length n<=N through each streaming adapter (plain/reversed, finalize and finalize_reset+reuse); every two-cut placement in a 130-byte input. Non-trivial = library call returned and was compared byte-for-byte with the reference (every case); cases are distinct by construction of the product.",
    );
    r.bounds = json!({"oneshot_max_len": if ctx.tier.is_thorough() {20000} else {1100}, "long_message_lens": C13_LONG, "chunking_max_n": if ctx.tier.is_thorough() {16} else {12}, "hmac_key_length_sweep": if ctx.tier.is_thorough() {1100} else {300}, "pbkdf2_password_length_sweep": if ctx.tier.is_thorough() {600} else {300}, "adapter_history_max_ops": if ctx.tier.is_thorough() {8} else {5}, "cuts130": if ctx.tier.is_thorough() {"every placement of two and of three cut points"} else {"every placement of two cut points"}, "hmac_key_lens": HMAC_KLEN, "hmac_msg_lens": HMAC_MLEN, "pbkdf2_iters": PB_ITERS, "pbkdf2_out_lens": PB_OUT, "deviation_bound": 0});
    r.assumptions.push("HMAC over the composite digests (SHA256d, HASH160) is RFC 2104 over the composite function with a 64-byte block".into());
    run_spaces(ctx, &mut r, spaces(ctx.tier));
    r
}

fn replay(case: &Value) -> Vec<(String, String)> {
    replay_spaces(spaces, case)
}
