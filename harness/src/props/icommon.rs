//! Shared by C14/C16: run a script on the real interpreter step by step and
//! compare with the reference trace.
use crate::engine::guard;
use crate::refs::interp::{self as ri, End, Stack, Trace};
use crate::refs::script::{self as rs, Tok};
use bsv::{Interpreter, Script};

#[derive(Debug, Clone, PartialEq, Eq)]
pub enum LibEnd {
    Finished,
    Err(String),
    Panic(String),
    StepCap,
}

pub struct LibRun {
    pub parse_err: Option<String>,
    pub states: Vec<(Stack, Stack)>,
    /// opcode byte the library says it executed at each step (0xfb = direct data push)
    pub executed: Vec<u8>,
    pub end: LibEnd,
    /// stacks held by the interpreter object after the run stopped
    pub final_stacks: (Stack, Stack),
    /// when the run stopped on an error: does run() on the same interpreter afterwards report completion?
    pub rerun_after_error_ok: Option<bool>,
}

pub const STEP_CAP: usize = 100_000;

pub fn lib_run_script(script: &Script) -> LibRun {
    let mut states = vec![];
    let mut executed = vec![];
    let mut interp = match guard(|| Interpreter::from_script(script)) {
        Ok(i) => i,
        Err(p) => return LibRun { parse_err: None, states, executed, end: LibEnd::Panic(p), final_stacks: (vec![], vec![]), rerun_after_error_ok: None },
    };
    let mut end = LibEnd::StepCap;
    for _ in 0..STEP_CAP {
        match guard(|| interp.next()) {
            Ok(None) => {
                end = LibEnd::Finished;
                break;
            }
            Ok(Some(Ok(st))) => {
                executed.push(st.executed_opcodes.last().map(|o| *o as u8).unwrap_or(0xff));
                states.push((st.stack.clone(), st.alt_stack.clone()))
            }
            Ok(Some(Err(e))) => {
                end = LibEnd::Err(e.to_string());
                break;
            }
            Err(p) => {
                end = LibEnd::Panic(p);
                break;
            }
        }
    }
    let st = guard(|| interp.state()).ok();
    let final_stacks = st.map(|s| (s.stack.clone(), s.alt_stack.clone())).unwrap_or_default();
    let rerun_after_error_ok = if matches!(end, LibEnd::Err(_)) { guard(|| interp.run().is_ok()).ok() } else { None };
    LibRun { parse_err: None, states, executed, end, final_stacks, rerun_after_error_ok }
}

pub fn lib_run(bytes: &[u8]) -> LibRun {
    match guard(|| Script::from_bytes(bytes)) {
        Ok(Ok(s)) => lib_run_script(&s),
        Ok(Err(e)) => LibRun { parse_err: Some(e.to_string()), states: vec![], executed: vec![], end: LibEnd::Err("parse".into()), final_stacks: (vec![], vec![]), rerun_after_error_ok: None },
        Err(p) => LibRun { parse_err: Some(format!("panic: {}", p)), states: vec![], executed: vec![], end: LibEnd::Panic(p), final_stacks: (vec![], vec![]), rerun_after_error_ok: None },
    }
}

pub fn opname(b: u8) -> String {
    match super::libx::opcode_from_u8(b) {
        Some(o) => o.to_string(),
        None => format!("0x{:02x}", b),
    }
}

pub fn tokname(t: &Tok) -> String {
    match t {
        Tok::Op(o) => opname(*o),
        Tok::Push(_) => "push".into(),
        Tok::PushData(c, _) => opname(*c),
    }
}

pub fn show_stack(s: &Stack) -> String {
    let items: Vec<String> = s.iter().map(|x| if x.is_empty() { "''".to_string() } else if x.len() > 24 { format!("{}…({}B)", hex::encode(&x[..12]), x.len()) } else { hex::encode(x) }).collect();
    format!("[{}]", items.join(" "))
}

#[derive(Debug, Clone)]
pub struct Divergence {
    /// index of the step (executed token count) at which model and implementation part ways
    pub step: usize,
    /// token index in the script blamed for it
    pub tok: usize,
    pub kind: &'static str,
    pub detail: String,
}

/// Compare the library's step sequence with the reference trace.
/// None = conforms (or the reference declares the script ambiguous from the diverging point on).
pub fn compare(tokens: &[Tok], reference: &Trace, lib: &LibRun) -> Option<Divergence> {
    if lib.parse_err.is_some() {
        // a script the library cannot parse: conforms when the reference also fails it for structure
        let unbalanced = reference.end == End::Unbalanced || rs::open_depth(tokens, &[rs::OP_IF, rs::OP_NOTIF, rs::OP_VERIF, rs::OP_VERNOTIF]) > 0;
        if unbalanced || matches!(reference.end, End::Ambiguous { .. }) {
            return None;
        }
        // a script that the reference fails because of an OP_ELSE / OP_ENDIF without an open conditional fails either way:
        // refusing it when it is parsed is as good as failing it when it is run
        if let End::Failed { why, .. } = &reference.end {
            if why.contains("without") && (why.contains("ELSE") || why.contains("ENDIF")) {
                return None;
            }
        }
        return Some(Divergence { step: 0, tok: 0, kind: "script-not-parsed", detail: format!("library cannot parse the script: {}", lib.parse_err.clone().unwrap_or_default()) });
    }
    let n = reference.states.len().min(lib.states.len());
    for i in 0..n {
        let (tok, rs_main, rs_alt) = &reference.states[i];
        let (ls_main, ls_alt) = &lib.states[i];
        // did both sides execute the same script element at this step? If not, control flow diverged earlier:
        // blame the last conditional (or OP_RETURN) the reference executed before this step.
        let ref_code = match &tokens[*tok] {
            Tok::Op(o) => *o,
            Tok::Push(_) => 0xfb,
            Tok::PushData(c, _) => *c,
        };
        if lib.executed.get(i).map(|c| *c != ref_code).unwrap_or(false) {
            let culprit = reference.states[..i].iter().rev().map(|s| s.0).find(|t| matches!(tokens[*t], Tok::Op(0x63) | Tok::Op(0x64) | Tok::Op(0x6a)));
            if let Some(c) = culprit {
                return Some(Divergence {
                    step: i,
                    tok: c,
                    kind: "wrong-control-flow",
                    detail: format!("after {} the reference executes {} at step {}, the library executes {}", tokname(&tokens[c]), tokname(&tokens[*tok]), i, opname(lib.executed[i])),
                });
            }
        }
        if rs_main != ls_main || rs_alt != ls_alt {
            return Some(Divergence {
                step: i,
                tok: *tok,
                kind: "wrong-result",
                detail: format!("after step {} ({}): library main={} alt={} | reference main={} alt={}", i, tokname(&tokens[*tok]), show_stack(ls_main), show_stack(ls_alt), show_stack(rs_main), show_stack(rs_alt)),
            });
        }
    }
    // one side has more steps, or both ended here
    if reference.states.len() > n {
        // library stopped early
        let (tok, _, _) = &reference.states[n];
        return Some(match &lib.end {
            LibEnd::Err(e) => Divergence { step: n, tok: *tok, kind: "spurious-error", detail: format!("library fails at step {} ({}) with '{}', reference continues", n, tokname(&tokens[*tok]), e) },
            LibEnd::Panic(p) => Divergence { step: n, tok: *tok, kind: "panic", detail: format!("library panics at step {} ({}): {}", n, tokname(&tokens[*tok]), p) },
            LibEnd::Finished => Divergence { step: n, tok: *tok, kind: "missing-step", detail: format!("library finished after {} steps, reference executes {} next", n, tokname(&tokens[*tok])) },
            LibEnd::StepCap => Divergence { step: n, tok: *tok, kind: "does-not-terminate", detail: "step cap".into() },
        });
    }
    // reference produced exactly n states; what happens next on each side?
    match &reference.end {
        End::Ambiguous { .. } => None,
        End::Failed { at, why } => {
            if lib.states.len() > n {
                Some(Divergence { step: n, tok: *at, kind: "missing-error", detail: format!("reference fails at {} ({}); library returns a state: main={}", tokname(&tokens[*at]), why, show_stack(&lib.states[n].0)) })
            } else {
                match &lib.end {
                    // a failed script stays failed: run() on the same interpreter after the error must not report completion
                    LibEnd::Err(_) if lib.rerun_after_error_ok == Some(true) => Some(Divergence { step: n, tok: *at, kind: "failure-not-sticky", detail: format!("the library fails at {} ({}) as the reference does, but run() on the same interpreter afterwards returns Ok", tokname(&tokens[*at]), why) }),
                    LibEnd::Err(_) => None,
                    LibEnd::Panic(p) => Some(Divergence { step: n, tok: *at, kind: "panic", detail: format!("reference fails cleanly at {} ({}); library panics: {}", tokname(&tokens[*at]), why, p) }),
                    LibEnd::Finished => Some(Divergence { step: n, tok: *at, kind: "missing-error", detail: format!("reference fails at {} ({}); library finishes without error", tokname(&tokens[*at]), why) }),
                    LibEnd::StepCap => Some(Divergence { step: n, tok: *at, kind: "does-not-terminate", detail: "step cap".into() }),
                }
            }
        }
        End::Unbalanced => None, // the library's parser would have rejected it; not reached with parse_err None
        End::Completed => {
            if lib.states.len() > n {
                // blame the last executed reference token (e.g. OP_RETURN that should have ended execution)
                let tok = reference.states.last().map(|s| s.0).unwrap_or(0);
                Some(Divergence { step: n, tok, kind: "execution-continues", detail: format!("reference execution ends after {} steps (last token {}); library executes further steps", n, tokname(&tokens[tok])) })
            } else {
                match &lib.end {
                    LibEnd::Finished => None,
                    LibEnd::Err(e) => {
                        // the library attempted a step the reference never takes: blame the last token the reference executed
                        let tok = reference.states.last().map(|s| s.0).unwrap_or(0);
                        let kind = if matches!(tokens.get(tok), Some(Tok::Op(0x6a))) { "execution-continues" } else { "spurious-error" };
                        Some(Divergence { step: n, tok, kind, detail: format!("reference completes after {}; library goes on and fails with '{}'", tokens.get(tok).map(tokname).unwrap_or_default(), e) })
                    }
                    LibEnd::Panic(p) => Some(Divergence { step: n, tok: reference.states.last().map(|s| s.0).unwrap_or(0), kind: "panic", detail: p.clone() }),
                    LibEnd::StepCap => Some(Divergence { step: n, tok: 0, kind: "does-not-terminate", detail: "step cap".into() }),
                }
            }
        }
    }
}

/// Push sequence that recreates a stack (and alt stack) in the real interpreter.
pub fn pushes_for(main: &Stack, alt: &Stack) -> Vec<Tok> {
    let mut t = vec![];
    for x in alt {
        t.push(push_tok(x));
        t.push(Tok::Op(0x6b));
    }
    for x in main {
        t.push(push_tok(x));
    }
    t
}

pub fn push_tok(x: &[u8]) -> Tok {
    if x.is_empty() {
        Tok::Op(0x00)
    } else {
        rs::minimal_push(x)
    }
}

#[allow(dead_code)]
pub fn ref_run(tokens: &[Tok]) -> Trace {
    ri::run(tokens)
}
