//! C07 — key and address encodings: WIF and raw private keys, SEC1 public keys,
//! Base58Check P2PKH addresses of any network prefix (reference: refs::secp,
//! refs::b58, refs::hashes).
//!
//! Every space is a full product over small boundary alphabets; the library is
//! run on every case and compared with the reference. A panic on a *malformed*
//! input is a totality matter (C09): here it only counts as "did not accept"
//! (info counter `panics_left_to_C09`). A panic on a *valid* input is a C07
//! violation, as is accepting what the reference rejects.
use super::{hx, replay_spaces, run_spaces, Case, Prop, Space};
use crate::engine::{coords, guard, panic_site, Acc, Ctx, Report, Tier};
use crate::refs::secp::Point;
use crate::refs::{b58, hashes as rh, secp};
use bsv::{ChainParams, P2PKHAddress, PrivateKey, PublicKey, SigHash, SighashSignature};
use num_bigint::BigUint;
use num_traits::{One, Zero};
use serde_json::{json, Value};
use std::sync::{Arc, OnceLock};

pub const PROP: Prop = Prop {
    run,
    replay,
    spaces: Some(spaces),
    level_note: "trusted base: refs::secp (SEC 1 point arithmetic and octet-string conversions on num-bigint), refs::b58 (Base58Check, WIF, address; KAT-checked), refs::hashes (SHA-256, RIPEMD-160; bound to hashlib). Keys, hashes and x-coordinates outside the stated boundary alphabets are not covered; WIF prefixes other than 0x80 and out-of-range scalars are excluded from the accept/reject oracle",
};

// ---------------------------------------------------------------------------
// library call plumbing
// ---------------------------------------------------------------------------

enum Tri<T> {
    Ok(T),
    Err(String),
    Panic(String),
}

impl<T> Tri<T> {
    fn code(&self) -> u8 {
        match self {
            Tri::Ok(_) => 1,
            Tri::Err(_) => 2,
            Tri::Panic(_) => 3,
        }
    }
}

/// One call into the library returning a Result.
fn call<T, E: std::fmt::Display>(acc: &mut Acc, f: impl FnOnce() -> Result<T, E>) -> Tri<T> {
    acc.transitions += 1;
    match guard(f) {
        Ok(Ok(v)) => Tri::Ok(v),
        Ok(Err(e)) => Tri::Err(e.to_string()),
        Err(p) => Tri::Panic(p),
    }
}

/// One call into the library returning a plain value.
fn call_plain<T>(acc: &mut Acc, f: impl FnOnce() -> T) -> Tri<T> {
    acc.transitions += 1;
    match guard(f) {
        Ok(v) => Tri::Ok(v),
        Err(p) => Tri::Panic(p),
    }
}

/// The input is valid according to the reference, so the library must succeed.
fn must<T>(acc: &mut Acc, case: &Case, input: &Value, entry: &str, r: Tri<T>) -> Option<T> {
    match r {
        Tri::Ok(v) => Some(v),
        Tri::Err(e) => {
            acc.violate(format!("C07/{}/kind=spurious-error", entry), case.idx, case.json(input.clone()), format!("library returned Err({}) on an input the reference accepts", e));
            None
        }
        Tri::Panic(p) => {
            acc.violate(format!("C07/{}/kind=panic@{}", entry, panic_site(&p)), case.idx, case.json(input.clone()), format!("library panicked on an input the reference accepts: {}", p));
            None
        }
    }
}

fn mcall<T, E: std::fmt::Display>(acc: &mut Acc, case: &Case, input: &Value, entry: &str, f: impl FnOnce() -> Result<T, E>) -> Option<T> {
    let r = call(acc, f);
    must(acc, case, input, entry, r)
}

fn eq_bytes(acc: &mut Acc, case: &Case, input: &Value, entry: &str, got: &[u8], want: &[u8]) -> bool {
    acc.traces += 1;
    if got != want {
        acc.violate(format!("C07/{}/kind=wrong-result", entry), case.idx, case.json(input.clone()), format!("library={} reference={}", hx(got), hx(want)));
        return false;
    }
    true
}

fn eq_str(acc: &mut Acc, case: &Case, input: &Value, entry: &str, got: &str, want: &str) -> bool {
    acc.traces += 1;
    if got != want {
        acc.violate(format!("C07/{}/kind=wrong-result", entry), case.idx, case.json(input.clone()), format!("library={:?} reference={:?}", got, want));
        return false;
    }
    true
}

fn eq_flag(acc: &mut Acc, case: &Case, input: &Value, entry: &str, got: bool, want: bool) {
    acc.traces += 1;
    if got != want {
        acc.violate(format!("C07/{}/kind=wrong-result", entry), case.idx, case.json(input.clone()), format!("library={} reference={}", got, want));
    }
}

fn chain(prefix: u8) -> ChainParams {
    let d = ChainParams::default();
    ChainParams::new(prefix, d.p2sh, d.privkey, d.xpub, d.xpriv, d.magic)
}

// ---------------------------------------------------------------------------
// alphabets (built once per tier, deterministic)
// ---------------------------------------------------------------------------

struct KeyRow {
    label: String,
    key32: [u8; 32],
    x: BigUint,
    y: BigUint,
    /// SEC1 encodings, index = compressed as usize (0: 65 bytes, 1: 33 bytes)
    enc: [Vec<u8>; 2],
    /// SEC1 encodings of the negated point (same x, other y)
    neg: [Vec<u8>; 2],
    h160: [[u8; 20]; 2],
    wif: [String; 2],
}

fn key_row(label: &str, d: &BigUint) -> KeyRow {
    let key32 = secp::be32(d);
    let pt = secp::mul_g(d);
    let (x, y) = match &pt {
        Point::Affine { x, y } => (x.clone(), y.clone()),
        Point::Infinity => panic!("C07 alphabet: key {} is not in [1, n-1]", label),
    };
    let negp = Point::Affine { x: x.clone(), y: secp::p() - &y };
    let enc = [secp::encode_point(&pt, false), secp::encode_point(&pt, true)];
    let neg = [secp::encode_point(&negp, false), secp::encode_point(&negp, true)];
    let h160 = [rh::hash160(&enc[0]), rh::hash160(&enc[1])];
    let wif = [b58::wif_encode(&key32, false, 0x80), b58::wif_encode(&key32, true, 0x80)];
    KeyRow { label: label.to_string(), key32, x, y, enc, neg, h160, wif }
}

const SUBST: &[u8; 63] = b"123456789ABCDEFGHJKLMNPQRSTUVWXYZabcdefghijkmnopqrstuvwxyz0OIl ";
const PK_LEN_TAGS_QUICK: [u8; 7] = [0, 2, 3, 4, 5, 6, 7];
const PK65_TAGS: [u8; 7] = [4, 6, 7, 0, 2, 3, 5];
const PK65_VARIANTS: [&str; 6] = ["y", "y+1", "p-y", "y-1", "x<->y", "x+1"];
const UNLOCK_CANDIDATES: [&str; 4] = ["own key, same form", "own key, other form", "next key", "negated point"];

struct Tables {
    /// core keys followed by the byte-pattern keys (`n_core_keys` = number of core keys)
    keys: Vec<KeyRow>,
    /// the derived alphabets (hashes, x candidates, pk65, unlock) use the core keys only
    n_core_keys: usize,
    /// Base58 strings obtained by byte-level truncation / extension of valid Base58Check data
    alias_strings: Vec<(String, String)>,
    alias_bases: Vec<String>,
    /// (label, leading run, trailing run) of hash bytes equal to the prefix byte of the case
    dyn_hashes: Vec<(&'static str, usize, usize)>,
    /// number of leading keys used by the (prefix × key × …) unlocking-script product
    n_unlock_keys: usize,
    hashes: Vec<(String, [u8; 20])>,
    wif_bases: Vec<String>,
    addr_bases: Vec<String>,
    wif_sub: Vec<(usize, usize)>,
    addr_sub: Vec<(usize, usize)>,
    /// strings whose payload has every length 0..=40 and a valid checksum, plus raw short strings
    len_strings: Vec<(String, String)>,
    /// 32-byte x candidates for compressed encodings
    xs: Vec<(String, [u8; 32])>,
    pk_len_tags: Vec<u8>,
    /// serialised SighashSignature (library objects are rebuilt per use, never shared between worker threads)
    sig_bytes: Vec<u8>,
}

fn ordinary(tag: &[u8]) -> BigUint {
    let v = secp::from_be(&rh::sha256(tag)) % secp::n();
    if v.is_zero() {
        BigUint::one()
    } else {
        v
    }
}

// --- byte-pattern private keys -------------------------------------------------
//
// A key byte that coincides with a framing byte of the WIF payload (version byte
// 0x80 in front, compression flag 0x01 behind, the zero bytes Base58 treats
// specially) must not be confused with the framing. The alphabet places each
// framing byte as a run at the start, a run at the end, alone at interior
// positions and everywhere; the other bytes come from a filler that contains no
// framing byte, so that the pattern is exact.

const FRAMING_QUICK: [u8; 3] = [0x80, 0x01, 0x00];
const FRAMING_THOROUGH: [u8; 5] = [0x80, 0x01, 0x00, 0xef, 0xff];
const PATTERN_POS_QUICK: [usize; 4] = [1, 15, 16, 30];

fn filler32() -> [u8; 32] {
    let mut f = rh::sha256(b"bsvmc/C07/pattern filler");
    for b in f.iter_mut() {
        if [0x00u8, 0x01, 0x80, 0xef, 0xff, 0x08, 0x10].contains(b) {
            *b ^= 0x5a;
        }
    }
    // keep the value far below n whatever follows
    f[0] = 0x40 | (f[0] & 0x3f);
    if [0x00u8, 0x01, 0x80, 0xef, 0xff, 0x08, 0x10].contains(&f[0]) {
        f[0] ^= 0x1a;
    }
    f
}

fn pattern_keys(tier: Tier) -> Vec<(String, [u8; 32])> {
    let fill = filler32();
    let framing: &[u8] = if tier.is_thorough() { &FRAMING_THOROUGH } else { &FRAMING_QUICK };
    let positions: Vec<usize> = if tier.is_thorough() { (1..=30).collect() } else { PATTERN_POS_QUICK.to_vec() };
    let mut v: Vec<(String, [u8; 32])> = Vec::new();
    for &f in framing {
        for r in 1..=3usize {
            let mut k = fill;
            k[..r].fill(f);
            v.push((format!("pattern: first {} byte(s) {:02x}", r, f), k));
            let mut k = fill;
            k[32 - r..].fill(f);
            v.push((format!("pattern: last {} byte(s) {:02x}", r, f), k));
        }
        for &pos in &positions {
            let mut k = fill;
            k[pos] = f;
            v.push((format!("pattern: byte {} is {:02x}", pos, f), k));
        }
        let mut k = fill;
        k[0] = f;
        k[31] = f;
        v.push((format!("pattern: first and last byte {:02x}", f), k));
        v.push((format!("pattern: every byte {:02x}", f), [f; 32]));
    }
    for (lead, trail) in [(1usize, 1usize), (2, 2), (1, 2)] {
        let mut k = fill;
        k[..lead].fill(0x80);
        k[32 - trail..].fill(0x01);
        v.push((format!("pattern: first {} byte(s) 80 and last {} byte(s) 01", lead, trail), k));
    }
    // framing bytes that appear only across a byte boundary of the hexadecimal form ("0808" contains "80", "1010" contains "01")
    v.push(("pattern: every byte 08 (hex contains 80 across byte boundaries)".into(), [0x08; 32]));
    v.push(("pattern: every byte 10 (hex contains 01 across byte boundaries)".into(), [0x10; 32]));
    let mut k = fill;
    k[0] = 0x08;
    k[1] = 0x08;
    k[30] = 0x10;
    k[31] = 0x10;
    v.push(("pattern: first two bytes 08, last two bytes 10".into(), k));
    // only scalars in [1, n-1]
    let n = secp::n();
    v.retain(|(_, k)| {
        let d = secp::from_be(k);
        !d.is_zero() && d < n
    });
    v
}

// --- byte-level truncation / extension of Base58Check data --------------------------
//
// Bases are complete (payload || checksum) byte strings of valid addresses and WIFs,
// chosen by a counter search with the reference so that the checksum ends or starts
// with zero bytes (and, independently, so that the payload has zero / 0x80 bytes right
// behind the prefix). Every base is then cut and extended at both ends byte by byte;
// the reference decoders decide what each resulting string is.

#[derive(Clone, Copy, PartialEq)]
enum Cks {
    Any,
    EndsZero(usize),
    StartsZero(usize),
}

impl Cks {
    fn holds(self, c: &[u8]) -> bool {
        match self {
            Cks::Any => true,
            Cks::EndsZero(k) => c[4 - k..4].iter().all(|b| *b == 0),
            Cks::StartsZero(k) => c[..k].iter().all(|b| *b == 0),
        }
    }
    fn name(self) -> String {
        match self {
            Cks::Any => "any checksum".into(),
            Cks::EndsZero(k) => format!("checksum ends in {} zero byte(s)", k),
            Cks::StartsZero(k) => format!("checksum starts with {} zero byte(s)", k),
        }
    }
}

#[derive(Clone, Copy)]
enum BaseKind {
    /// prefix, number of leading zero bytes of the hash
    Addr(u8, usize),
    /// compressed, forced first key byte
    Wif(bool, Option<u8>),
}

/// First counter value (from 0 upwards) for which the checksum condition holds: payload || checksum.
fn search_base(kind: BaseKind, cond: Cks) -> (String, Vec<u8>) {
    let fill = filler32();
    for ctr in 0u32..=u32::MAX {
        let (label, mut data) = match kind {
            BaseKind::Addr(prefix, lz) => {
                let mut h = [0u8; 20];
                h.copy_from_slice(&fill[..20]);
                h[..lz].fill(0);
                h[8..12].copy_from_slice(&ctr.to_be_bytes());
                let mut d = vec![prefix];
                d.extend_from_slice(&h);
                (format!("address, prefix {:02x}, hash with {} leading zero byte(s), counter {}", prefix, lz, ctr), d)
            }
            BaseKind::Wif(compressed, lead) => {
                let mut k = fill;
                if let Some(b) = lead {
                    k[0] = b;
                }
                k[8..12].copy_from_slice(&ctr.to_be_bytes());
                let mut d = vec![0x80u8];
                d.extend_from_slice(&k);
                if compressed {
                    d.push(0x01);
                }
                (format!("WIF ({}), first key byte {:02x}, counter {}", if compressed { "compressed" } else { "uncompressed" }, k[0], ctr), d)
            }
        };
        let c = rh::sha256d(&data);
        if cond.holds(&c[..4]) {
            data.extend_from_slice(&c[..4]);
            return (format!("{}, {}", label, cond.name()), data);
        }
    }
    unreachable!("C07 setup: no counter satisfies the checksum condition")
}

const ALIAS_TRANSFORMS: usize = 21;

fn alias_transform(data: &[u8], t: usize) -> (String, Vec<u8>) {
    let n = data.len();
    match t {
        0 => ("unchanged".into(), data.to_vec()),
        1..=4 => (format!("last {} byte(s) dropped", t), data[..n - t].to_vec()),
        5..=8 => (format!("first {} byte(s) dropped", t - 4), data[t - 4..].to_vec()),
        9..=12 => {
            let mut d = data.to_vec();
            d.extend(std::iter::repeat(0u8).take(t - 8));
            (format!("{} zero byte(s) appended", t - 8), d)
        }
        13..=16 => {
            let mut d = vec![0u8; t - 12];
            d.extend_from_slice(data);
            (format!("{} zero byte(s) prepended", t - 12), d)
        }
        17 => {
            let mut d = data[..n - 5].to_vec();
            d.extend_from_slice(&data[n - 4..]);
            ("last payload byte dropped, checksum kept".into(), d)
        }
        18 | 19 => {
            let b = if t == 18 { 0x00 } else { 0x01 };
            let mut d = data[..n - 4].to_vec();
            d.push(b);
            d.extend_from_slice(&data[n - 4..]);
            (format!("byte {:02x} inserted between payload and checksum", b), d)
        }
        _ => {
            let mut d = data.to_vec();
            d.push(0x01);
            ("byte 01 appended".into(), d)
        }
    }
}

fn alias_jobs(tier: Tier) -> Vec<(BaseKind, Cks)> {
    let one = [Cks::Any, Cks::EndsZero(1), Cks::StartsZero(1)];
    let two = [Cks::EndsZero(2), Cks::StartsZero(2)];
    let prefixes: &[u8] = if tier.is_thorough() { &[0x00, 0x6f, 0x05, 0x80, 0xff] } else { &[0x00, 0x6f] };
    let mut jobs = vec![];
    for &p in prefixes {
        for lz in 0..=2usize {
            for c in one {
                jobs.push((BaseKind::Addr(p, lz), c));
            }
            for c in two {
                jobs.push((BaseKind::Addr(p, lz), c));
            }
            if lz == 0 && tier.is_thorough() && (p == 0x00 || p == 0x6f) {
                jobs.push((BaseKind::Addr(p, lz), Cks::EndsZero(3)));
            }
        }
    }
    for compressed in [false, true] {
        for lead in [None, Some(0x80u8), Some(0x00)] {
            for c in one {
                jobs.push((BaseKind::Wif(compressed, lead), c));
            }
            for c in two {
                jobs.push((BaseKind::Wif(compressed, lead), c));
            }
            if lead.is_none() && tier.is_thorough() {
                jobs.push((BaseKind::Wif(compressed, lead), Cks::EndsZero(3)));
            }
        }
    }
    jobs
}

/// (strings with description, base strings). The searches are independent and deterministic; they run on their own threads.
fn alias_strings(tier: Tier) -> (Vec<(String, String)>, Vec<String>) {
    let jobs = alias_jobs(tier);
    let bases: Vec<(String, Vec<u8>)> = std::thread::scope(|s| {
        let hs: Vec<_> = jobs.iter().map(|(k, c)| s.spawn(move || search_base(*k, *c))).collect();
        hs.into_iter().map(|h| h.join().expect("C07 setup: base search thread")).collect()
    });
    let mut out = vec![];
    let mut seen = std::collections::HashSet::new();
    for (label, data) in &bases {
        for t in 0..ALIAS_TRANSFORMS {
            let (what, d) = alias_transform(data, t);
            let s = b58::b58_encode(&d);
            if seen.insert(s.clone()) {
                out.push((s, format!("{}: {} -> {} bytes {}", label, what, d.len(), hx(&d))));
            }
        }
    }
    (out, bases.iter().map(|(l, d)| format!("{} = {}", b58::b58_encode(d), l)).collect())
}

fn build(tier: Tier) -> Tables {
    let n = secp::n();
    let p = secp::p();
    let two = BigUint::from(2u32);
    let ks: Vec<(String, BigUint)> = vec![
        ("1".into(), BigUint::one()),
        ("2".into(), two.clone()),
        ("3".into(), BigUint::from(3u32)),
        ("2^128".into(), BigUint::one() << 128u32),
        ("(2^255-19) mod n".into(), ((BigUint::one() << 255u32) - 19u32) % &n),
        ("(n-1)/2".into(), (&n - 1u32) / 2u32),
        ("(n+1)/2".into(), (&n + 1u32) / 2u32),
        ("n-2".into(), &n - 2u32),
        ("n-1".into(), &n - 1u32),
        ("ordinary-A".into(), ordinary(b"bsvmc/C07/ordinary key A")),
        ("ordinary-B".into(), ordinary(b"bsvmc/C07/ordinary key B")),
    ];
    // every small key up to `small`, and beyond that the first keys (up to `scan`) whose encodings hit the
    // zero-padding corners: x / y with a leading zero byte, HASH160 (either form) with a leading zero byte
    let (small, scan): (u32, u32) = if tier.is_thorough() { (1200, 1200) } else { (32, 1200) };
    let names = ["x has a leading zero byte", "y has a leading zero byte", "HASH160(compressed) has a leading zero byte", "HASH160(uncompressed) has a leading zero byte"];
    let mut found = [false; 4];
    let mut keys: Vec<KeyRow> = ks.iter().map(|(l, d)| key_row(l, d)).collect();
    for d in 4..=scan {
        if d > small && found.iter().all(|f| *f) {
            break;
        }
        let mut row = key_row(&format!("{}", d), &BigUint::from(d));
        let hits = [secp::be32(&row.x)[0] == 0, secp::be32(&row.y)[0] == 0, row.h160[1][0] == 0, row.h160[0][0] == 0];
        let mut special = false;
        for i in 0..4 {
            if hits[i] && !found[i] {
                found[i] = true;
                special = true;
                row.label = format!("{} ({})", row.label, names[i]);
            }
        }
        if d <= small || special {
            keys.push(row);
        }
    }
    if tier.is_thorough() {
        // widen further: every power of two, the 16 keys below n
        for k in 2..=255u32 {
            let d = BigUint::one() << k;
            if !keys.iter().any(|r| r.key32 == secp::be32(&d)) {
                keys.push(key_row(&format!("2^{}", k), &d));
            }
        }
        for j in 3..=16u32 {
            keys.push(key_row(&format!("n-{}", j), &(&n - j)));
        }
    }
    let n_unlock_keys = if tier.is_thorough() { 128 } else { keys.len() };

    // 20-byte hashes: z leading zero bytes (0..=20) followed by a fixed tail, plus the hashes of the keys
    let mut hashes: Vec<(String, [u8; 20])> = Vec::new();
    let tails: &[(&str, u8, u8)] = if tier.is_thorough() { &[("counter", 1, 1), ("ff", 0xff, 0), ("01", 1, 0), ("80", 0x80, 0)] } else { &[("counter", 1, 1), ("ff", 0xff, 0)] };
    for z in 0..=20usize {
        for (name, start, step) in tails {
            if z == 20 && *name != "counter" {
                continue;
            }
            let mut h = [0u8; 20];
            for i in z..20 {
                h[i] = start.wrapping_add((*step) * ((i - z) as u8));
            }
            hashes.push((format!("{} leading zero bytes, tail {}", z, name), h));
        }
    }
    hashes.push(("all ff".into(), [0xff; 20]));
    for k in &keys {
        for c in 0..2 {
            hashes.push((format!("HASH160 of key {} ({})", k.label, if c == 1 { "compressed" } else { "uncompressed" }), k.h160[c]));
        }
    }

    // bases for single-character substitutions
    let mut wif_bases = vec![keys[0].wif[1].clone(), keys[0].wif[0].clone(), keys[8].wif[1].clone(), keys[9].wif[0].clone()];
    let mut h10 = [0u8; 20];
    for i in 10..20 {
        h10[i] = (i - 9) as u8;
    }
    let mut addr_bases = vec![
        b58::address_encode(0x00, &keys[0].h160[1]),
        b58::address_encode(0x6f, &keys[0].h160[0]),
        b58::address_encode(0x00, &[0u8; 20]),
        b58::address_encode(0x00, &h10),
        b58::address_encode(0xff, &keys[9].h160[1]),
    ];
    for k in keys.iter().skip(1).take(3) {
        wif_bases.push(k.wif[1].clone());
        wif_bases.push(k.wif[0].clone());
    }
    addr_bases.push(b58::address_encode(0x05, &keys[1].h160[1]));
    addr_bases.push(b58::address_encode(0x01, &keys[2].h160[0]));
    if tier.is_thorough() {
        for k in keys.iter().skip(4).take(7) {
            wif_bases.push(k.wif[1].clone());
            wif_bases.push(k.wif[0].clone());
            addr_bases.push(b58::address_encode(0x00, &k.h160[1]));
            addr_bases.push(b58::address_encode(0x05, &k.h160[0]));
        }
        for z in [1usize, 5, 15, 19] {
            let mut h = [0u8; 20];
            for i in z..20 {
                h[i] = 0xa0 + i as u8;
            }
            addr_bases.push(b58::address_encode(0x00, &h));
            addr_bases.push(b58::address_encode(0x6f, &h));
        }
    }
    let sub = |bases: &Vec<String>| -> Vec<(usize, usize)> {
        let mut v = vec![];
        for (b, s) in bases.iter().enumerate() {
            for pos in 0..s.len() {
                v.push((b, pos));
            }
        }
        v
    };
    let wif_sub = sub(&wif_bases);
    let addr_sub = sub(&addr_bases);

    // payloads of every length 0..=40 under a valid checksum
    let mut len_strings: Vec<(String, String)> = Vec::new();
    for l in 0..=40usize {
        for first in [0x00u8, 0x6f, 0x80, 0xff] {
            for (fname, start, step) in [("counter", 1u8, 1u8), ("ff", 0xff, 0), ("00", 0, 0), ("11", 0x11, 0)] {
                for last in [None, Some(0x01u8), Some(0x00), Some(0x02)] {
                    if l == 0 && !(first == 0 && fname == "counter" && last.is_none()) {
                        continue;
                    }
                    let mut pl: Vec<u8> = Vec::with_capacity(l);
                    for i in 0..l {
                        pl.push(if i == 0 { first } else { start.wrapping_add(step * (i as u8 - 1)) });
                    }
                    if let (Some(b), true) = (last, l >= 2) {
                        pl[l - 1] = b;
                    } else if last.is_some() {
                        continue;
                    }
                    len_strings.push((b58::check_encode(&pl), format!("payload of {} bytes ({}) under a valid checksum", l, hx(&pl))));
                }
            }
        }
    }
    for raw in ["", "1", "11", "111", "1111", "11111", "2", "z", "zz", "zzz", "zzzz", "zzzzz", "zzzzzz"] {
        len_strings.push((raw.to_string(), format!("raw base58 string {:?} (decodes to {} bytes)", raw, b58::b58_decode(raw).map(|d| d.len()).unwrap_or(0))));
    }

    {
        // the fill × last-byte product repeats some payloads: keep the first occurrence only
        let mut seen = std::collections::HashSet::new();
        len_strings.retain(|e| seen.insert(e.0.clone()));
    }

    // x candidates
    let mut xs: Vec<(String, [u8; 32])> = Vec::new();
    for k in &keys {
        xs.push((format!("x of key {}", k.label), secp::be32(&k.x)));
    }
    let want_small = if tier.is_thorough() { 16 } else { 4 };
    let (mut on, mut off) = (0, 0);
    let mut smallest_on: Option<BigUint> = None;
    let mut v = BigUint::zero();
    while on < want_small || off < want_small {
        let is_on = secp::lift_x(&v, false).is_some();
        if is_on && on < want_small {
            on += 1;
            if smallest_on.is_none() {
                smallest_on = Some(v.clone());
            }
            xs.push((format!("{} (on the curve)", v), secp::be32(&v)));
        } else if !is_on && off < want_small {
            off += 1;
            xs.push((format!("{} (not on the curve)", v), secp::be32(&v)));
        }
        v += 1u32;
    }
    xs.push(("p-1".into(), secp::be32(&(&p - 1u32))));
    xs.push(("p".into(), secp::be32(&p)));
    xs.push(("p+1".into(), secp::be32(&(&p + 1u32))));
    if let Some(s) = smallest_on {
        xs.push((format!("p+{} (congruent to an on-curve x, not reduced)", s), secp::be32(&(&p + &s))));
    }
    xs.push(("2^256-1".into(), [0xff; 32]));

    let pk_len_tags: Vec<u8> = if tier.is_thorough() { (0..=255u8).collect() } else { PK_LEN_TAGS_QUICK.to_vec() };

    // one signature object for get_unlocking_script (its value is irrelevant to the property)
    let sig = guard(|| {
        let sk = PrivateKey::from_bytes(&keys[0].key32).expect("PrivateKey::from_bytes(1)");
        let s = sk.sign_message(b"x").expect("sign_message");
        SighashSignature::new(&s, SigHash::InputsOutputs, &[]).to_bytes().expect("SighashSignature::to_bytes")
    })
    .expect("C07 setup: cannot build a SighashSignature");

    // hashes with zero bytes at the END (the leading-zero rows above have them in front)
    // -- appended after the key hashes so that the rows above keep their positions
    for z in 1..=19usize {
        let mut h = [0u8; 20];
        for i in 0..20 - z {
            h[i] = 1 + i as u8;
        }
        hashes.push((format!("{} trailing zero bytes, head counter", z), h));
    }
    // hashes whose first / last bytes repeat the prefix byte of the case (built per case)
    let dyn_hashes: Vec<(&'static str, usize, usize)> = vec![
        ("first byte equals the prefix byte", 1, 0),
        ("first two bytes equal the prefix byte", 2, 0),
        ("last byte equals the prefix byte", 0, 1),
        ("first and last two bytes equal the prefix byte", 2, 2),
    ];

    // byte-pattern keys go behind the core keys; the derived alphabets above were built from the core keys only
    let n_core_keys = keys.len();
    for (label, k32) in pattern_keys(tier) {
        if !keys.iter().any(|r| r.key32 == k32) {
            keys.push(key_row(&label, &secp::from_be(&k32)));
        }
    }

    let (alias_strings, alias_bases) = alias_strings(tier);

    Tables { keys, n_core_keys, alias_strings, alias_bases, dyn_hashes, n_unlock_keys, hashes, wif_bases, addr_bases, wif_sub, addr_sub, len_strings, xs, pk_len_tags, sig_bytes: sig }
}

/// Hash row `hi` of the addr-prefix-hash product: a fixed hash, or one that repeats the prefix byte.
fn hash_row(t: &Tables, hi: usize, prefix: u8) -> (String, [u8; 20]) {
    if hi < t.hashes.len() {
        return t.hashes[hi].clone();
    }
    let (name, lead, trail) = t.dyn_hashes[hi - t.hashes.len()];
    let f = filler32();
    let mut h = [0u8; 20];
    h.copy_from_slice(&f[..20]);
    h[..lead].fill(prefix);
    h[20 - trail..].fill(prefix);
    (name.to_string(), h)
}

fn tables(tier: Tier) -> Arc<Tables> {
    static Q: OnceLock<Arc<Tables>> = OnceLock::new();
    static T: OnceLock<Arc<Tables>> = OnceLock::new();
    match tier {
        Tier::Quick => Q.get_or_init(|| Arc::new(build(tier))).clone(),
        Tier::Thorough => T.get_or_init(|| Arc::new(build(tier))).clone(),
    }
}

// ---------------------------------------------------------------------------
// oracles
// ---------------------------------------------------------------------------

enum PkClass {
    Valid(Point),
    /// the statement leaves it open (X9.62 hybrid form of a curve point with a consistent parity tag)
    Open,
    Invalid(&'static str),
}

fn classify_pk(bytes: &[u8]) -> PkClass {
    if let Some(pt) = secp::decode_point(bytes) {
        return PkClass::Valid(pt);
    }
    if bytes.is_empty() {
        return PkClass::Invalid("length");
    }
    let tag = bytes[0];
    if bytes.len() == 1 && tag == 0 {
        return PkClass::Invalid("identity");
    }
    if bytes.len() == 33 && tag == 5 {
        return PkClass::Invalid("tag-05-compact");
    }
    if bytes.len() == 65 && (tag == 6 || tag == 7) {
        let x = secp::from_be(&bytes[1..33]);
        let y = secp::from_be(&bytes[33..65]);
        if secp::is_on_curve(&x, &y) && y.bit(0) == (tag == 7) {
            return PkClass::Open;
        }
        return PkClass::Invalid("hybrid-tag");
    }
    if (bytes.len() == 33 && (tag == 2 || tag == 3)) || (bytes.len() == 65 && tag == 4) {
        return PkClass::Invalid("not-on-curve");
    }
    if bytes.len() == 33 || bytes.len() == 65 {
        return PkClass::Invalid("tag");
    }
    PkClass::Invalid("length")
}

/// Everything the statement says about a public key the library accepted and the
/// reference decodes to `pt`: bytes/hex round trip, compression flag, compress and
/// decompress equal the reference and are mutually inverse, HASH160 of the address.
/// The hex text in upper case and with the case of every other letter flipped (both cases present when it has two letters).
fn hex_case_variants(lower: &str) -> Vec<(&'static str, String)> {
    let upper = lower.to_uppercase();
    let mut k = 0;
    let mixed: String = lower
        .chars()
        .map(|c| {
            if c.is_ascii_alphabetic() {
                k += 1;
                if k % 2 == 0 {
                    return c.to_ascii_uppercase();
                }
            }
            c
        })
        .collect();
    let mut v = vec![];
    if upper != lower {
        v.push(("upper", upper));
    }
    if mixed != lower {
        v.push(("mixed", mixed));
    }
    v
}

fn check_valid_pubkey(acc: &mut Acc, case: &Case, input: &Value, pk: &PublicKey, bytes: &[u8], pt: &Point) {
    let enc_c = secp::encode_point(pt, true);
    let enc_u = secp::encode_point(pt, false);
    if let Some(b) = mcall(acc, case, input, "PublicKey::to_bytes", || pk.to_bytes()) {
        eq_bytes(acc, case, input, "PublicKey::to_bytes", &b, bytes);
    }
    if let Tri::Ok(f) = call_plain(acc, || pk.is_compressed()) {
        eq_flag(acc, case, input, "PublicKey::is_compressed", f, bytes.len() == 33);
    }
    if let Some(h) = mcall(acc, case, input, "PublicKey::to_hex", || pk.to_hex()) {
        eq_str(acc, case, input, "PublicKey::to_hex", &h, &hex::encode(bytes));
    }
    if let Some(pk2) = mcall(acc, case, input, "PublicKey::from_hex", || PublicKey::from_hex(&hex::encode(bytes))) {
        acc.traces += 1;
        if pk2 != *pk {
            acc.violate("C07/PublicKey::from_hex/kind=wrong-result", case.idx, case.json(input.clone()), format!("from_hex(hex(b)) = {:?} differs from from_bytes(b) = {:?}", pk2, pk));
        }
    }
    // the same bytes written with upper-case and with mixed-case hex digits are the same encoding
    for (variant, text) in hex_case_variants(&hex::encode(bytes)) {
        match call(acc, || PublicKey::from_hex(&text)) {
            Tri::Ok(pk3) => {
                acc.traces += 1;
                if pk3 != *pk {
                    acc.violate(format!("C07/PublicKey::from_hex/kind=wrong-result/hex-case={}", variant), case.idx, case.json(input.clone()), format!("from_hex({}) differs from from_bytes of the same bytes", text));
                }
            }
            other => acc.violate(format!("C07/PublicKey::from_hex/kind=spurious-error/hex-case={}", variant), case.idx, case.json(input.clone()), format!("from_hex({}) -> {}; from_bytes accepts the same bytes", text, other.code())),
        }
    }
    let comp = mcall(acc, case, input, "PublicKey::to_compressed", || pk.to_compressed());
    let dec = mcall(acc, case, input, "PublicKey::to_decompressed", || pk.to_decompressed());
    if let Some(c) = &comp {
        if let Some(b) = mcall(acc, case, input, "PublicKey::to_bytes", || c.to_bytes()) {
            eq_bytes(acc, case, input, "PublicKey::to_compressed", &b, &enc_c);
        }
        if let Tri::Ok(f) = call_plain(acc, || c.is_compressed()) {
            eq_flag(acc, case, input, "PublicKey::to_compressed/is_compressed", f, true);
        }
        if let Some(cd) = mcall(acc, case, input, "PublicKey::to_decompressed", || c.to_decompressed()) {
            if let Some(b) = mcall(acc, case, input, "PublicKey::to_bytes", || cd.to_bytes()) {
                eq_bytes(acc, case, input, "PublicKey::to_decompressed∘to_compressed", &b, &enc_u);
            }
        }
    }
    if let Some(d) = &dec {
        if let Some(b) = mcall(acc, case, input, "PublicKey::to_bytes", || d.to_bytes()) {
            eq_bytes(acc, case, input, "PublicKey::to_decompressed", &b, &enc_u);
        }
        if let Tri::Ok(f) = call_plain(acc, || d.is_compressed()) {
            eq_flag(acc, case, input, "PublicKey::to_decompressed/is_compressed", f, false);
        }
        if let Some(dc) = mcall(acc, case, input, "PublicKey::to_compressed", || d.to_compressed()) {
            if let Some(b) = mcall(acc, case, input, "PublicKey::to_bytes", || dc.to_bytes()) {
                eq_bytes(acc, case, input, "PublicKey::to_compressed∘to_decompressed", &b, &enc_c);
            }
        }
    }
    let h = rh::hash160(bytes);
    if let Some(a) = mcall(acc, case, input, "PublicKey::to_p2pkh_address", || pk.to_p2pkh_address()) {
        if let Tri::Ok(got) = call_plain(acc, || a.to_pubkey_hash()) {
            eq_bytes(acc, case, input, "PublicKey::to_p2pkh_address/hash160", &got, &h);
        }
        if let Some(s) = mcall(acc, case, input, "P2PKHAddress::to_string", || a.to_string()) {
            eq_str(acc, case, input, "PublicKey::to_p2pkh_address/string", &s, &b58::address_encode(0x00, &h));
        }
    }
}

/// Accept-iff-valid for one candidate public-key byte string.
fn check_pk_candidate(acc: &mut Acc, case: &Case, bytes: &[u8], desc: Value, tagspace: u8) {
    acc.evaluations += 1;
    let input = json!({"candidate": hx(bytes), "what": desc});
    let class = classify_pk(bytes);
    let lib = call(acc, || PublicKey::from_bytes(bytes));
    acc.traces += 1;
    let ccode = match &class {
        PkClass::Valid(_) => 1u8,
        PkClass::Open => 2,
        PkClass::Invalid(_) => 3,
    };
    acc.outcome(&[tagspace, ccode, lib.code(), bytes.first().copied().unwrap_or(0xee).min(8), (bytes.len() == 33) as u8, (bytes.len() == 65) as u8]);
    match (class, lib) {
        (PkClass::Valid(pt), lib) => {
            acc.nontrivial_structural += 1;
            if let Some(pk) = must(acc, case, &input, "PublicKey::from_bytes", lib) {
                check_valid_pubkey(acc, case, &input, &pk, bytes, &pt);
            }
        }
        (PkClass::Open, lib) => {
            acc.bump(if matches!(lib, Tri::Ok(_)) { "hybrid_consistent_accepted(open)" } else { "hybrid_consistent_rejected(open)" }, 1);
        }
        (PkClass::Invalid(why), Tri::Ok(pk)) => {
            acc.nontrivial_structural += 1;
            // what the wrongly accepted object does next is the same root cause: recorded in the detail only
            let after_d = match call(acc, || pk.to_decompressed()) {
                Tri::Ok(d) => format!("Ok({})", d.to_bytes().map(|b| hx(&b)).unwrap_or_default()),
                Tri::Err(e) => format!("Err({})", e),
                Tri::Panic(p) => {
                    acc.bump("panic_in_to_decompressed_after_wrong_acceptance", 1);
                    format!("PANIC {}", p)
                }
            };
            let after_c = match call(acc, || pk.to_compressed()) {
                Tri::Ok(d) => format!("Ok({})", d.to_bytes().map(|b| hx(&b)).unwrap_or_default()),
                Tri::Err(e) => format!("Err({})", e),
                Tri::Panic(p) => {
                    acc.bump("panic_in_to_compressed_after_wrong_acceptance", 1);
                    format!("PANIC {}", p)
                }
            };
            acc.violate(
                format!("C07/PublicKey::from_bytes/kind=missing-error/why={}", why),
                case.idx,
                case.json(input),
                format!("library accepted bytes that are not a SEC1 encoding of a non-identity curve point ({}); afterwards to_decompressed -> {}, to_compressed -> {}", why, after_d, after_c),
            );
        }
        (PkClass::Invalid(_), Tri::Err(_)) => {
            if bytes.len() == 33 || bytes.len() == 65 {
                acc.nontrivial_structural += 1;
            }
        }
        (PkClass::Invalid(_), Tri::Panic(_)) => acc.bump("panics_left_to_C09", 1),
    }
}

/// Why the reference rejects a Base58Check string.
fn why_invalid(s: &str, wif: bool) -> &'static str {
    match b58::b58_decode(s) {
        None => "non-base58-character",
        Some(d) if d.len() < 4 => "shorter-than-a-checksum",
        // a decoded length no address / WIF can have is the cause whatever the last four bytes are
        Some(d) if (!wif && d.len() != 25) || (wif && d.len() != 37 && d.len() != 38) => "payload-length",
        Some(d) => {
            if b58::check_decode(s).is_none() {
                "checksum"
            } else if wif && d.len() == 38 {
                "compression-flag"
            } else {
                "payload-length"
            }
        }
    }
}

fn reaches_checksum(s: &str) -> bool {
    b58::b58_decode(s).map(|d| d.len() >= 4).unwrap_or(false)
}

/// Accept-iff-valid (and value) for one address string.
fn check_addr_string(acc: &mut Acc, case: &Case, s: &str, desc: Value, tagspace: u8) {
    acc.evaluations += 1;
    let input = json!({"address_string": s, "what": desc});
    let reference = b58::address_decode(s);
    let lib = call(acc, || P2PKHAddress::from_string(s));
    acc.traces += 1;
    if reaches_checksum(s) {
        acc.nontrivial_structural += 1;
    }
    acc.outcome(&[tagspace, reference.is_some() as u8, lib.code()]);
    match (reference, lib) {
        (Some((prefix, h)), lib) => {
            if let Some(a) = must(acc, case, &input, "P2PKHAddress::from_string", lib) {
                if let Tri::Ok(got) = call_plain(acc, || a.to_pubkey_hash()) {
                    eq_bytes(acc, case, &input, "P2PKHAddress::from_string/hash160", &got, &h);
                }
                if let Some(back) = mcall(acc, case, &input, "P2PKHAddress::to_string", || a.to_string()) {
                    // the string carries the prefix byte: equal strings <=> equal (prefix, hash)
                    eq_str(acc, case, &input, "P2PKHAddress::to_string∘from_string", &back, &b58::address_encode(prefix, &h));
                }
            }
        }
        (None, Tri::Ok(a)) => {
            let why = why_invalid(s, false);
            acc.violate(
                format!("C07/P2PKHAddress::from_string/kind=missing-error/why={}", why),
                case.idx,
                case.json(input),
                format!("library accepted a string the reference Base58Check address decoder rejects ({}); parsed as {:?}", why, a),
            );
        }
        (None, Tri::Err(_)) => {}
        (None, Tri::Panic(_)) => acc.bump("panics_left_to_C09", 1),
    }
}

/// Accept-iff-valid (and value) for one WIF string. Prefixes other than 0x80 and
/// scalars outside [1, n-1] are excluded (counted).
fn check_wif_string(acc: &mut Acc, case: &Case, s: &str, desc: Value, tagspace: u8) {
    acc.evaluations += 1;
    let input = json!({"wif_string": s, "what": desc});
    let reference = b58::wif_decode(s);
    let lib = call(acc, || PrivateKey::from_wif(s));
    acc.traces += 1;
    if reaches_checksum(s) {
        acc.nontrivial_structural += 1;
    }
    acc.outcome(&[tagspace, reference.is_some() as u8, lib.code()]);
    match (reference, lib) {
        (Some((prefix, key, compressed)), lib) => {
            let d = secp::from_be(&key);
            if d.is_zero() || d >= secp::n() {
                acc.bump(if matches!(lib, Tri::Ok(_)) { "wif_out_of_range_scalar_accepted(excluded)" } else { "wif_out_of_range_scalar_rejected(excluded)" }, 1);
                return;
            }
            if prefix != 0x80 {
                acc.bump(if matches!(lib, Tri::Ok(_)) { "wif_non_mainnet_prefix_accepted(excluded)" } else { "wif_non_mainnet_prefix_rejected(excluded)" }, 1);
                return;
            }
            if let Some(sk) = must(acc, case, &input, "PrivateKey::from_wif", lib) {
                if let Tri::Ok(b) = call_plain(acc, || sk.to_bytes()) {
                    eq_bytes(acc, case, &input, "PrivateKey::from_wif/key", &b, &key);
                }
                if let Some(w) = mcall(acc, case, &input, "PrivateKey::to_wif", || sk.to_wif()) {
                    // equal strings <=> equal (key, compression flag)
                    eq_str(acc, case, &input, "PrivateKey::to_wif∘from_wif", &w, &b58::wif_encode(&key, compressed, 0x80));
                }
            }
        }
        (None, Tri::Ok(sk)) => {
            let why = why_invalid(s, true);
            acc.violate(
                format!("C07/PrivateKey::from_wif/kind=missing-error/why={}", why),
                case.idx,
                case.json(input),
                format!("library accepted a string the reference WIF decoder rejects ({}); parsed key {}", why, sk.to_hex()),
            );
        }
        (None, Tri::Err(_)) => {}
        (None, Tri::Panic(_)) => acc.bump("panics_left_to_C09", 1),
    }
}

fn substitute(base: &str, pos: usize, c: u8) -> String {
    let mut b = base.as_bytes().to_vec();
    b[pos] = c;
    String::from_utf8(b).expect("ascii")
}

// ---------------------------------------------------------------------------
// spaces
// ---------------------------------------------------------------------------

pub fn spaces(tier: Tier) -> Vec<Space> {
    let t = tables(tier);
    let mut v = vec![];

    // 1. keys K × compression: private key bytes/hex/WIF round trips, derived public key, address, locking script
    {
        let t = t.clone();
        let nk = t.keys.len() as u64;
        v.push(Space::new("keys", nk * 2, move |case, acc| {
            let c = coords(case.idx, &[nk, 2]);
            let k = &t.keys[c[0] as usize];
            let ci = c[1] as usize;
            let compressed = ci == 1;
            acc.evaluations += 1;
            acc.nontrivial_structural += 1;
            let input = json!({"key": k.label, "key_hex": hex::encode(k.key32), "compressed": compressed});
            acc.sample(case.idx, || json!({"space": "keys", "key": k.label, "compressed": compressed, "reference_wif": k.wif[ci], "reference_pubkey": hex::encode(&k.enc[ci]), "reference_address": b58::address_encode(0, &k.h160[ci])}));
            let sk0 = match mcall(acc, case, &input, "PrivateKey::from_bytes", || PrivateKey::from_bytes(&k.key32)) {
                Some(s) => s,
                None => {
                    acc.outcome(b"keys/from_bytes failed");
                    return;
                }
            };
            let sk = match call_plain(acc, || sk0.compress_public_key(compressed)) {
                Tri::Ok(s) => s,
                Tri::Panic(p) => {
                    acc.violate(format!("C07/PrivateKey::compress_public_key/kind=panic@{}", panic_site(&p)), case.idx, case.json(input.clone()), p);
                    return;
                }
                Tri::Err(_) => unreachable!(),
            };
            // raw bytes / hex
            if let Tri::Ok(b) = call_plain(acc, || sk.to_bytes()) {
                eq_bytes(acc, case, &input, "PrivateKey::to_bytes", &b, &k.key32);
            }
            if let Tri::Ok(h) = call_plain(acc, || sk.to_hex()) {
                eq_str(acc, case, &input, "PrivateKey::to_hex", &h, &hex::encode(k.key32));
            }
            if let Some(s2) = mcall(acc, case, &input, "PrivateKey::from_hex", || PrivateKey::from_hex(&hex::encode(k.key32))) {
                if let Tri::Ok(b) = call_plain(acc, || s2.to_bytes()) {
                    eq_bytes(acc, case, &input, "PrivateKey::from_hex", &b, &k.key32);
                }
            }
            for (variant, text) in hex_case_variants(&hex::encode(k.key32)) {
                match call(acc, || PrivateKey::from_hex(&text)) {
                    Tri::Ok(s3) => {
                        if let Tri::Ok(b) = call_plain(acc, || s3.to_bytes()) {
                            eq_bytes(acc, case, &input, "PrivateKey::from_hex", &b, &k.key32);
                        }
                    }
                    other => acc.violate(format!("C07/PrivateKey::from_hex/kind=spurious-error/hex-case={}", variant), case.idx, case.json(input.clone()), format!("from_hex({}) -> {}", text, other.code())),
                }
            }
            // WIF
            let mut out = vec![ci as u8];
            if let Some(w) = mcall(acc, case, &input, "PrivateKey::to_wif", || sk.to_wif()) {
                eq_str(acc, case, &input, "PrivateKey::to_wif", &w, &k.wif[ci]);
                out.extend_from_slice(&w.as_bytes()[..w.len().min(6)]);
            }
            if let Some(s3) = mcall(acc, case, &input, "PrivateKey::from_wif", || PrivateKey::from_wif(&k.wif[ci])) {
                if let Tri::Ok(b) = call_plain(acc, || s3.to_bytes()) {
                    eq_bytes(acc, case, &input, "PrivateKey::from_wif/key", &b, &k.key32);
                }
                if let Some(w) = mcall(acc, case, &input, "PrivateKey::to_wif", || s3.to_wif()) {
                    eq_str(acc, case, &input, "PrivateKey::to_wif∘from_wif", &w, &k.wif[ci]);
                }
                if let Tri::Ok(pt) = call_plain(acc, || s3.get_point()) {
                    eq_bytes(acc, case, &input, "PrivateKey::from_wif/get_point", &pt, &k.enc[ci]);
                }
            }
            // derived public key
            match call_plain(acc, || sk.get_point()) {
                Tri::Ok(pt) => {
                    eq_bytes(acc, case, &input, "PrivateKey::get_point", &pt, &k.enc[ci]);
                }
                Tri::Panic(p) => acc.violate(format!("C07/PrivateKey::get_point/kind=panic@{}", panic_site(&p)), case.idx, case.json(input.clone()), p),
                Tri::Err(_) => unreachable!(),
            }
            if let Some(pk) = mcall(acc, case, &input, "PrivateKey::to_public_key", || sk.to_public_key()) {
                if let Some(b) = mcall(acc, case, &input, "PublicKey::to_bytes", || pk.to_bytes()) {
                    eq_bytes(acc, case, &input, "PrivateKey::to_public_key", &b, &k.enc[ci]);
                    out.extend_from_slice(&b[..b.len().min(4)]);
                }
                if let Tri::Ok(f) = call_plain(acc, || pk.is_compressed()) {
                    eq_flag(acc, case, &input, "PrivateKey::to_public_key/is_compressed", f, compressed);
                }
                // address and locking script of the derived key
                if let Some(a) = mcall(acc, case, &input, "PublicKey::to_p2pkh_address", || pk.to_p2pkh_address()) {
                    if let Some(s) = mcall(acc, case, &input, "P2PKHAddress::to_string", || a.to_string()) {
                        eq_str(acc, case, &input, "PublicKey::to_p2pkh_address/string", &s, &b58::address_encode(0x00, &k.h160[ci]));
                    }
                    if let Some(sc) = mcall(acc, case, &input, "P2PKHAddress::get_locking_script", || a.get_locking_script()) {
                        if let Tri::Ok(b) = call_plain(acc, || sc.to_bytes()) {
                            eq_bytes(acc, case, &input, "P2PKHAddress::get_locking_script", &b, &b58::p2pkh_script(&k.h160[ci]));
                        }
                    }
                }
                if let Some(a) = mcall(acc, case, &input, "P2PKHAddress::from_pubkey", || P2PKHAddress::from_pubkey(&pk)) {
                    if let Tri::Ok(h) = call_plain(acc, || a.to_pubkey_hash()) {
                        eq_bytes(acc, case, &input, "P2PKHAddress::from_pubkey/hash160", &h, &k.h160[ci]);
                    }
                }
            }
            if let Tri::Ok(pk) = call_plain(acc, || PublicKey::from_private_key(&sk)) {
                if let Some(b) = mcall(acc, case, &input, "PublicKey::to_bytes", || pk.to_bytes()) {
                    eq_bytes(acc, case, &input, "PublicKey::from_private_key", &b, &k.enc[ci]);
                }
            }
            // the SEC1 encoding itself goes through the public-key decoder
            let pt = Point::Affine { x: k.x.clone(), y: k.y.clone() };
            if let Some(pk) = mcall(acc, case, &input, "PublicKey::from_bytes", || PublicKey::from_bytes(&k.enc[ci])) {
                check_valid_pubkey(acc, case, &input, &pk, &k.enc[ci], &pt);
            }
            acc.outcome(&out);
        }));
    }

    // 2. every prefix byte × hashes: to_string / from_string / set_chain_params / locking script
    {
        let t = t.clone();
        let nh = (t.hashes.len() + t.dyn_hashes.len()) as u64;
        v.push(Space::new("addr-prefix-hash", 256 * nh, move |case, acc| {
            let c = coords(case.idx, &[nh, 256]);
            let prefix = c[1] as u8;
            let (hname, h) = hash_row(&t, c[0] as usize, prefix);
            let (hname, h) = (&hname, &h);
            acc.evaluations += 1;
            acc.nontrivial_structural += 1;
            let ref_s = b58::address_encode(prefix, h);
            let ref_s0 = b58::address_encode(0x00, h);
            let input = json!({"prefix": prefix, "hash160": hex::encode(h), "hash": hname, "reference_address": ref_s});
            acc.sample(case.idx, || json!({"space": "addr-prefix-hash", "prefix": prefix, "hash160": hex::encode(h), "reference_address": ref_s, "length": ref_s.len()}));
            let mut out = vec![prefix.min(2), (ref_s.len() < 33) as u8];
            let a0 = match mcall(acc, case, &input, "P2PKHAddress::from_pubkey_hash", || P2PKHAddress::from_pubkey_hash(h)) {
                Some(a) => a,
                None => return,
            };
            if let Some(s0) = mcall(acc, case, &input, "P2PKHAddress::to_string", || a0.to_string()) {
                eq_str(acc, case, &input, "P2PKHAddress::to_string", &s0, &ref_s0);
            }
            let a = match mcall(acc, case, &input, "P2PKHAddress::set_chain_params", || a0.set_chain_params(&chain(prefix))) {
                Some(a) => a,
                None => return,
            };
            if let Some(s) = mcall(acc, case, &input, "P2PKHAddress::to_string", || a.to_string()) {
                eq_str(acc, case, &input, "P2PKHAddress::set_chain_params/string", &s, &ref_s);
                out.push(s.len() as u8);
            }
            if let Tri::Ok(got) = call_plain(acc, || a.to_pubkey_hash()) {
                eq_bytes(acc, case, &input, "P2PKHAddress::set_chain_params/hash160", &got, h);
            }
            // the named parameter sets: mainnet for prefix 0x00; testnet, regtest and STN share prefix 0x6f
            let named: Vec<(&str, ChainParams)> = match prefix {
                0x00 => vec![("mainnet", ChainParams::mainnet())],
                0x6f => vec![("testnet", ChainParams::testnet()), ("regtest", ChainParams::regtest()), ("stn", ChainParams::stn())],
                _ => vec![],
            };
            for (name, params) in named {
                if let Some(b) = mcall(acc, case, &input, "P2PKHAddress::set_chain_params", || a0.set_chain_params(&params)) {
                    acc.traces += 1;
                    if let Some(s) = mcall(acc, case, &input, "P2PKHAddress::to_string", || b.to_string()) {
                        eq_str(acc, case, &input, &format!("P2PKHAddress::set_chain_params({})/string", name), &s, &ref_s);
                    }
                }
            }
            // re-prefixing back gives the mainnet address again
            if let Some(back) = mcall(acc, case, &input, "P2PKHAddress::set_chain_params", || a.set_chain_params(&chain(0))) {
                acc.traces += 1;
                if back != a0 {
                    acc.violate("C07/P2PKHAddress::set_chain_params/kind=wrong-result/what=not-invertible", case.idx, case.json(input.clone()), format!("set_chain_params(0) after set_chain_params({}) = {:?}, original {:?}", prefix, back, a0));
                }
            }
            // the reference string must parse to the same address object
            let parsed = call(acc, || P2PKHAddress::from_string(&ref_s));
            out.push(parsed.code());
            if let Some(b) = must(acc, case, &input, "P2PKHAddress::from_string", parsed) {
                acc.traces += 1;
                if b != a {
                    acc.violate("C07/P2PKHAddress::from_string∘to_string/kind=wrong-result", case.idx, case.json(input.clone()), format!("from_string(to_string(a)) = {:?} differs from a = {:?}", b, a));
                }
                if let Some(s) = mcall(acc, case, &input, "P2PKHAddress::to_string", || b.to_string()) {
                    eq_str(acc, case, &input, "P2PKHAddress::to_string∘from_string", &s, &ref_s);
                }
            }
            if let Some(sc) = mcall(acc, case, &input, "P2PKHAddress::get_locking_script", || a.get_locking_script()) {
                if let Tri::Ok(b) = call_plain(acc, || sc.to_bytes()) {
                    eq_bytes(acc, case, &input, "P2PKHAddress::get_locking_script", &b, &b58::p2pkh_script(h));
                }
            }
            acc.outcome(&out);
        }));
    }

    // 3. get_unlocking_script succeeds iff HASH160(pk bytes) is the address hash, for every prefix
    {
        let t = t.clone();
        let nk = t.n_unlock_keys.min(t.keys.len()) as u64;
        v.push(Space::new("unlock", 256 * nk * 2 * 2 * 4, move |case, acc| {
            let c = coords(case.idx, &[nk, 2, 4, 2, 256]);
            let k = &t.keys[c[0] as usize];
            let ci = c[1] as usize;
            let cand_kind = c[2] as usize;
            let via_string = c[3] == 1;
            let prefix = c[4] as u8;
            let other = &t.keys[((c[0] + 1) % nk) as usize];
            let cand: &Vec<u8> = match cand_kind {
                0 => &k.enc[ci],
                1 => &k.enc[1 - ci],
                2 => &other.enc[ci],
                _ => &k.neg[ci],
            };
            let h = k.h160[ci];
            let expect = rh::hash160(cand) == h;
            acc.evaluations += 1;
            let ref_s = b58::address_encode(prefix, &h);
            let input = json!({"prefix": prefix, "address": ref_s, "address_of_key": k.label, "address_key_compressed": ci == 1, "candidate": UNLOCK_CANDIDATES[cand_kind], "candidate_pubkey": hex::encode(cand), "address_built_via": if via_string {"from_string"} else {"from_pubkey_hash+set_chain_params"}, "reference_expects_success": expect});
            let addr = if via_string {
                match call(acc, || P2PKHAddress::from_string(&ref_s)) {
                    Tri::Ok(a) => a,
                    _ => {
                        // reported by the addr-prefix-hash space
                        acc.bump("unlock_case_skipped_address_string_not_parsed", 1);
                        return;
                    }
                }
            } else {
                match call(acc, || P2PKHAddress::from_pubkey_hash(&h).and_then(|a| a.set_chain_params(&chain(prefix)))) {
                    Tri::Ok(a) => a,
                    _ => {
                        acc.bump("unlock_case_skipped_address_not_built", 1);
                        return;
                    }
                }
            };
            let pk = match call(acc, || PublicKey::from_bytes(cand)) {
                Tri::Ok(p) => p,
                _ => {
                    acc.bump("unlock_case_skipped_pubkey_not_parsed", 1);
                    return;
                }
            };
            acc.nontrivial_structural += 1;
            acc.traces += 1;
            let Ok(Ok(sg)) = guard(|| SighashSignature::from_bytes(&t.sig_bytes, &[])) else {
                // parsing signatures is C06's subject
                acc.bump("unlock_case_skipped_signature_not_parsed", 1);
                return;
            };
            let res = call(acc, || addr.get_unlocking_script(&pk, &sg));
            acc.outcome(&[3, expect as u8, res.code(), (prefix == 0) as u8]);
            match (expect, res) {
                (true, Tri::Ok(_)) | (false, Tri::Err(_)) => {}
                (true, Tri::Err(e)) => acc.violate("C07/P2PKHAddress::get_unlocking_script/kind=spurious-error", case.idx, case.json(input), format!("HASH160(candidate) equals the address hash but the library returned Err({})", e)),
                (false, Tri::Ok(s)) => acc.violate("C07/P2PKHAddress::get_unlocking_script/kind=missing-error", case.idx, case.json(input), format!("HASH160(candidate) differs from the address hash but the library built {}", s.to_hex())),
                (_, Tri::Panic(p)) => acc.violate(format!("C07/P2PKHAddress::get_unlocking_script/kind=panic@{}", panic_site(&p)), case.idx, case.json(input), p),
            }
        }));
    }

    // 4./5. every single-character substitution of valid WIFs and addresses
    {
        let t2 = t.clone();
        let n = t.wif_sub.len() as u64;
        v.push(Space::new("subst-wif", n * 63, move |case, acc| {
            let c = coords(case.idx, &[n, 63]);
            let (b, pos) = t2.wif_sub[c[0] as usize];
            let base = &t2.wif_bases[b];
            let ch = SUBST[c[1] as usize];
            let s = substitute(base, pos, ch);
            acc.sample(case.idx, || json!({"space": "subst-wif", "base": base, "position": pos, "char": (ch as char).to_string(), "string": s}));
            check_wif_string(acc, case, &s, json!({"base": base, "position": pos, "substituted_char": (ch as char).to_string(), "identity": s == *base}), 4);
        }));
        let t2 = t.clone();
        let n = t.addr_sub.len() as u64;
        v.push(Space::new("subst-addr", n * 63, move |case, acc| {
            let c = coords(case.idx, &[n, 63]);
            let (b, pos) = t2.addr_sub[c[0] as usize];
            let base = &t2.addr_bases[b];
            let ch = SUBST[c[1] as usize];
            let s = substitute(base, pos, ch);
            check_addr_string(acc, case, &s, json!({"base": base, "position": pos, "substituted_char": (ch as char).to_string(), "identity": s == *base}), 5);
        }));
    }

    // 6. payloads of every length 0..=40 under a valid checksum (and raw short strings), to both decoders
    {
        let t2 = t.clone();
        let n = t.len_strings.len() as u64;
        v.push(Space::new("payload-length", n * 2, move |case, acc| {
            let c = coords(case.idx, &[n, 2]);
            let (s, desc) = &t2.len_strings[c[0] as usize];
            if c[1] == 0 {
                check_addr_string(acc, case, s, json!(desc), 6);
            } else {
                check_wif_string(acc, case, s, json!(desc), 7);
            }
        }));
    }

    // 6b. byte-level truncation / extension of valid Base58Check data whose checksum (payload) ends or starts with
    // zero bytes, to both decoders: no shorter or longer byte string may be taken for the original
    {
        let t2 = t.clone();
        let n = t.alias_strings.len() as u64;
        v.push(Space::new("b58-trunc-ext", n * 2, move |case, acc| {
            let c = coords(case.idx, &[n, 2]);
            let (s, desc) = &t2.alias_strings[c[0] as usize];
            acc.sample(case.idx, || json!({"space": "b58-trunc-ext", "string": s, "what": desc, "decoder": if c[1] == 0 {"P2PKHAddress::from_string"} else {"PrivateKey::from_wif"}}));
            if c[1] == 0 {
                check_addr_string(acc, case, s, json!(desc), 12);
            } else {
                check_wif_string(acc, case, s, json!(desc), 13);
            }
        }));
    }

    // 7. public-key candidates: every length 0..=66 × tag, body = prefix of x(G) || y(G)
    {
        let t2 = t.clone();
        let nt = t.pk_len_tags.len() as u64;
        v.push(Space::new("pk-length", 67 * nt, move |case, acc| {
            let c = coords(case.idx, &[67, nt]);
            let len = c[0] as usize;
            let tag = t2.pk_len_tags[c[1] as usize];
            let g = &t2.keys[0];
            let mut bytes = vec![];
            if len > 0 {
                bytes.push(tag);
                let mut body = g.enc[0][1..].to_vec();
                body.push(0x5a); // 66th byte
                bytes.extend_from_slice(&body[..len - 1]);
            }
            check_pk_candidate(acc, case, &bytes, json!({"length": len, "tag": tag, "body": "prefix of x(G) || y(G)"}), 8);
        }));
    }

    // 8. 33 bytes: every tag byte × x alphabet
    {
        let t2 = t.clone();
        let nx = t.xs.len() as u64;
        v.push(Space::new("pk33", nx * 256, move |case, acc| {
            let c = coords(case.idx, &[nx, 256]);
            let (xname, x) = &t2.xs[c[0] as usize];
            let tag = c[1] as u8;
            let mut bytes = vec![tag];
            bytes.extend_from_slice(x);
            acc.sample(case.idx, || json!({"space": "pk33", "tag": tag, "x": xname, "candidate": hex::encode(&bytes)}));
            check_pk_candidate(acc, case, &bytes, json!({"tag": tag, "x": xname}), 9);
        }));
    }

    // 9. 65 bytes: tags × points of K × coordinate variants
    {
        let t2 = t.clone();
        let nk = t.n_core_keys as u64;
        v.push(Space::new("pk65", nk * 7 * 6, move |case, acc| {
            let c = coords(case.idx, &[nk, 7, 6]);
            let k = &t2.keys[c[0] as usize];
            let tag = PK65_TAGS[c[1] as usize];
            let p = secp::p();
            let m256 = BigUint::one() << 256u32;
            let (x, y) = match c[2] {
                0 => (k.x.clone(), k.y.clone()),
                1 => (k.x.clone(), (&k.y + 1u32) % &m256),
                2 => (k.x.clone(), &p - &k.y),
                3 => (k.x.clone(), (&k.y + &m256 - 1u32) % &m256),
                4 => (k.y.clone(), k.x.clone()),
                _ => ((&k.x + 1u32) % &m256, k.y.clone()),
            };
            let mut bytes = vec![tag];
            bytes.extend_from_slice(&secp::be32(&x));
            bytes.extend_from_slice(&secp::be32(&y));
            check_pk_candidate(acc, case, &bytes, json!({"tag": tag, "point_of_key": k.label, "variant": PK65_VARIANTS[c[2] as usize]}), 10);
        }));
    }

    // 9b. histories on ONE private-key object: every sequence of up to 4 operations over {to_public_key, PublicKey::from_private_key,
    // get_point, to_wif, compress_public_key(true), compress_public_key(false)}; after every observing operation the result
    // must be the reference value for the compression form the object has at that moment
    {
        let t2 = t.clone();
        let nk = (t.n_core_keys as u64).min(4);
        let maxk = 4u32;
        let mut offsets = vec![0u64];
        for k in 0..=maxk {
            offsets.push(offsets[k as usize] + 6u64.pow(k));
        }
        let total = *offsets.last().unwrap();
        v.push(Space::new("key-object-histories", nk * 2 * total, move |case, acc| {
            let c = coords(case.idx, &[nk, 2, total]);
            let k = &t2.keys[c[0] as usize];
            let mut form = c[1] == 1; // true = compressed
            let n = offsets.iter().rposition(|o| *o <= c[2]).unwrap();
            let mut rem = c[2] - offsets[n];
            let mut ops = vec![0u8; n];
            for i in (0..n).rev() {
                ops[i] = (rem % 6) as u8;
                rem /= 6;
            }
            let names = ["to_public_key", "PublicKey::from_private_key", "get_point", "to_wif", "compress_public_key(true)", "compress_public_key(false)"];
            let hist: Vec<&str> = ops.iter().map(|o| names[*o as usize]).collect();
            let input = json!({"key": k.label, "initial_form": if form { "compressed" } else { "uncompressed" }, "operations": hist});
            acc.evaluations += 1;
            acc.nontrivial_structural += 1;
            let Tri::Ok(mut sk) = call(acc, || PrivateKey::from_bytes(&k.key32).map(|s| s.compress_public_key(form))) else { return };
            for (i, op) in ops.iter().enumerate() {
                let want_enc = &k.enc[form as usize];
                let res: Tri<Option<(Vec<u8>, Vec<u8>)>> = match op {
                    0 => call(acc, || sk.to_public_key().and_then(|p| p.to_bytes()).map(|b| Some((b, want_enc.clone())))),
                    1 => call(acc, || PublicKey::from_private_key(&sk).to_bytes().map(|b| Some((b, want_enc.clone())))),
                    2 => call_plain(acc, || Some((sk.get_point(), want_enc.clone()))),
                    3 => call(acc, || sk.to_wif().map(|w| Some((w.into_bytes(), k.wif[form as usize].clone().into_bytes())))),
                    4 | 5 => {
                        form = *op == 4;
                        let f = form;
                        match call_plain(acc, || sk.compress_public_key(f)) {
                            Tri::Ok(n2) => {
                                sk = n2;
                                Tri::Ok(None)
                            }
                            Tri::Err(e) => Tri::Err(e),
                            Tri::Panic(p) => Tri::Panic(p),
                        }
                    }
                    _ => unreachable!(),
                };
                acc.traces += 1;
                match res {
                    Tri::Ok(None) => {}
                    Tri::Ok(Some((got, want))) => {
                        if got != want {
                            acc.violate(format!("C07/{}/kind=wrong-result/after-history", names[*op as usize]), case.idx, case.json(input.clone()), format!("step {}: {} but the object is in {} form, expected {}", i, hx(&got), if form { "compressed" } else { "uncompressed" }, hx(&want)));
                            return;
                        }
                    }
                    Tri::Err(e) => {
                        acc.violate(format!("C07/{}/kind=spurious-error/after-history", names[*op as usize]), case.idx, case.json(input.clone()), e);
                        return;
                    }
                    Tri::Panic(p) => {
                        acc.violate(format!("C07/{}/kind=panic@{}", names[*op as usize], panic_site(&p)), case.idx, case.json(input.clone()), p);
                        return;
                    }
                }
            }
            acc.outcome(&[b'k', n as u8, form as u8]);
        }));
    }
    // 9c. serde encodings of keys and addresses: JSON text, JSON value and CBOR round trips return the same object
    {
        let t2 = t.clone();
        let nk = (t.n_core_keys as u64).min(6);
        v.push(Space::new("serde-roundtrips", nk * 2 * 3, move |case, acc| {
            let c = coords(case.idx, &[nk, 2, 3]);
            let k = &t2.keys[c[0] as usize];
            let form = c[1] == 1;
            let oname = ["PublicKey (other form)", "PublicKey", "P2PKHAddress"][c[2] as usize];
            let input = json!({"key": k.label, "compressed": form, "object": oname});
            acc.evaluations += 1;
            acc.nontrivial_structural += 1;
            acc.transitions += 6;
            fn three<T: serde::Serialize + serde::de::DeserializeOwned>(x: &T) -> Result<(T, T, T, T), String> {
                let text = serde_json::to_string(x).map_err(|e| e.to_string())?;
                let a: T = serde_json::from_str(&text).map_err(|e| format!("from_str({}): {}", text, e))?;
                let val = serde_json::to_value(x).map_err(|e| e.to_string())?;
                let b: T = serde_json::from_value(val).map_err(|e| format!("from_value: {}", e))?;
                let rd: T = serde_json::from_reader(text.as_bytes()).map_err(|e| format!("from_reader: {}", e))?;
                let mut buf = vec![];
                ciborium::ser::into_writer(x, &mut buf).map_err(|e| e.to_string())?;
                let d: T = ciborium::de::from_reader(&buf[..]).map_err(|e| format!("cbor: {}", e))?;
                Ok((a, b, rd, d))
            }
            let res = guard(|| -> Result<bool, String> {
                let sk = PrivateKey::from_bytes(&k.key32).map_err(|e| e.to_string())?.compress_public_key(form);
                let pk = sk.to_public_key().map_err(|e| e.to_string())?;
                match c[2] {
                    0 => {
                        let other = if form { pk.to_decompressed() } else { pk.to_compressed() }.map_err(|e| e.to_string())?;
                        let (a, b, r, d) = three(&other)?;
                        Ok([a, b, r, d].iter().all(|x| x.to_bytes().ok() == Some(k.enc[!form as usize].clone())))
                    }
                    1 => {
                        let (a, b, r, d) = three(&pk)?;
                        Ok([a, b, r, d].iter().all(|x| x.to_bytes().ok() == Some(k.enc[form as usize].clone())))
                    }
                    _ => {
                        let ad = P2PKHAddress::from_pubkey(&pk).map_err(|e| e.to_string())?;
                        let want = ad.to_string().map_err(|e| e.to_string())?;
                        let (a, b, r, d) = three(&ad)?;
                        Ok([a, b, r, d].iter().all(|x| x.to_string().ok().as_deref() == Some(want.as_str())))
                    }
                }
            });
            match res {
                Ok(Ok(true)) => acc.outcome(b"serde-ok"),
                Ok(Ok(false)) => acc.violate("C07/serde/kind=roundtrip-differs", case.idx, case.json(input), "an object decoded from its own serde encoding differs"),
                Ok(Err(e)) => acc.violate("C07/serde/kind=own-encoding-rejected", case.idx, case.json(input), e),
                Err(p) => acc.violate(format!("C07/serde/kind=panic@{}", panic_site(&p)), case.idx, case.json(input), p),
            }
        }));
    }
    // 10. scalars outside [1, n-1]: not quantified by the statement; behaviour recorded as information only
    {
        v.push(Space::new("scalar-range(info)", 4 * 3, move |case, acc| {
            let c = coords(case.idx, &[4, 3]);
            let n = secp::n();
            let d = match c[0] {
                0 => BigUint::zero(),
                1 => n.clone(),
                2 => &n + 1u32,
                _ => (BigUint::one() << 256u32) - 1u32,
            };
            let key32 = secp::be32(&d);
            acc.evaluations += 1;
            let lib = match c[1] {
                0 => call(acc, || PrivateKey::from_bytes(&key32)).code(),
                1 => call(acc, || PrivateKey::from_hex(&hex::encode(key32))).code(),
                _ => call(acc, || PrivateKey::from_wif(&b58::wif_encode(&key32, true, 0x80))).code(),
            };
            acc.outcome(&[11, lib]);
            acc.bump(
                match lib {
                    1 => "out_of_range_scalar_accepted(info)",
                    2 => "out_of_range_scalar_rejected(info)",
                    _ => "out_of_range_scalar_panicked(info)",
                },
                1,
            );
        }));
    }

    v
}

fn run(ctx: &Ctx) -> Report {
    let mut r = Report::new(
        "full cartesian products: keys K × compression (private key bytes/hex/WIF round trips, derived SEC1 key, HASH160, address string, locking script, compress/decompress inverses); every prefix byte 0..255 × 20-byte hashes with 0..20 leading zero bytes and the hashes of K (to_string, from_string∘to_string, set_chain_params, locking script); prefix × key × form × 4 candidate public keys × 2 address constructions for get_unlocking_script; every single-character substitution by 63 characters at every position of valid WIFs and addresses; payloads of every length 0..40 under a valid checksum fed to both string decoders; byte-level truncation / extension (drop 1..4 bytes at either end, add 1..4 zero bytes at either end, drop / insert a byte in front of the checksum, append 01) of valid address and WIF byte strings found by a counter search with the reference such that the checksum ends / starts with one or two zero bytes and the payload has 0..2 zero bytes (address) or a 00 / 80 byte (WIF) behind the prefix, fed to both string decoders; private keys K include byte-pattern keys (each framing byte 80 / 01 / 00 as a run of 1..3 at the start, at the end, alone at interior positions, at both ends, everywhere, and across hex byte boundaries); hashes include 1..19 trailing zero bytes and hashes whose first / last bytes repeat the prefix byte; public-key candidates of every length 0..66, every tag byte × x alphabet at length 33, 7 tags × points of K × 6 coordinate variants at length 65. Non-trivial = the case reached the decision under test (valid object compared field by field, or a string that reaches the checksum comparison, or a 33/65-byte candidate); cases are distinct by construction of the products.",
    );
    let t = tables(ctx.tier);
    r.bounds = json!({
        "keys": t.keys.iter().map(|k| k.label.clone()).take(40).collect::<Vec<_>>(),
        "n_keys": t.keys.len(),
        "n_core_keys": t.n_core_keys,
        "byte_pattern_keys": t.keys[t.n_core_keys..].iter().map(|k| format!("{} = {}", k.label, hex::encode(k.key32))).take(200).collect::<Vec<_>>(),
        "hash_trailing_zero_bytes": "1..=19",
        "prefix_dependent_hashes": t.dyn_hashes.iter().map(|d| d.0).collect::<Vec<_>>(),
        "trunc_ext_bases": t.alias_bases,
        "trunc_ext_transforms": (0..ALIAS_TRANSFORMS).map(|i| alias_transform(&[0u8; 25], i).0).collect::<Vec<_>>(),
        "n_trunc_ext_strings": t.alias_strings.len(),
        "n_keys_in_unlock_product": t.n_unlock_keys.min(t.keys.len()),
        "prefix_bytes": "0..=255",
        "n_hashes": t.hashes.len() + t.dyn_hashes.len(),
        "hash_leading_zero_bytes": "0..=20",
        "substitution_characters": String::from_utf8_lossy(SUBST),
        "wif_bases": t.wif_bases,
        "address_bases": t.addr_bases,
        "payload_lengths": "0..=40",
        "n_length_strings": t.len_strings.len(),
        "pubkey_lengths": "0..=66",
        "pubkey_length_tags": if t.pk_len_tags.len() == 256 { json!("0..=255") } else { json!(t.pk_len_tags) },
        "pk33_tags": "0..=255",
        "pk33_x": t.xs.iter().map(|x| x.0.clone()).take(60).collect::<Vec<_>>(),
        "n_pk33_x": t.xs.len(),
        "pk65_tags": PK65_TAGS,
        "pk65_variants": PK65_VARIANTS,
        "unlock_candidates": UNLOCK_CANDIDATES,
        "deviation_bound": 1
    });
    r.assumptions.push("WIF: the statement speaks of mainnet WIF (prefix 0x80); strings whose payload is well-formed but carries another prefix byte are neither required to be accepted nor to be rejected (excluded, counted in info)".into());
    r.assumptions.push("scalars outside [1, n-1] (0, n, n+1, 2^256-1) are not quantified by the statement: behaviour recorded as information only; private-key byte strings of a length other than 32 are not fed".into());
    r.assumptions.push("a 65-byte X9.62 hybrid encoding (tag 06/07) of a curve point with a consistent parity tag is left open; with an inconsistent tag or off-curve coordinates it must be rejected".into());
    r.assumptions.push("a panic on a malformed input counts as 'not accepted' here (info panics_left_to_C09) and belongs to C09; a panic on a valid input is a C07 violation".into());
    r.assumptions.push("what PublicKey::to_compressed/to_decompressed do with an object that from_bytes should not have produced is recorded in the detail of the from_bytes violation, not as a separate key".into());
    r.assumptions.push("the content of the unlocking script is not compared (only success/failure), the locking script is compared byte for byte".into());
    r.assumptions.push("the accepted prefix of an address is observed through to_string (the string determines prefix and hash uniquely)".into());
    run_spaces(ctx, &mut r, spaces(ctx.tier));
    r
}

fn replay(case: &Value) -> Vec<(String, String)> {
    replay_spaces(spaces, case)
}
