//! C18 — the extended-transaction JSON and compact (CBOR) encodings are lossless.
//!
//! Differential oracle (the encodings are the library's own format, so there is
//! no independent encoder): for every freshly built object t and every entry
//! point pair f in {JSON string, `to_json` value, CBOR bytes, CBOR hex}
//!   decode_f(encode_f(t)) == t   (derived PartialEq)
//!   and equal wire bytes (`to_bytes`), equal txid (also recomputed with refs::wire /
//!   refs::hashes from the wire bytes taken *before* encoding), equal extended accessors
//!   (`get_satoshis`, `get_locking_script_bytes`) for every input.
//! The same for a single `TxIn` on its own. 64-bit fields are additionally read
//! back from the emitted JSON text with a plain `serde_json::Value` parse.
//!
//! A mismatch is classified by a structural diff of original and decoded object
//! (field, and for scripts the ScriptBit form that changed), so unrelated defects
//! get different root-cause keys. A decoder's nesting-limit refusal carries the input class in its key
//! (`/nesting>=L` or `/nesting<L`, L = first level the parsers' default limits refuse), so a limit that
//! bites earlier than on the unchanged library is a key of its own.
//!
//! Besides the boundary-value products there are contiguous sweeps (every value of a range, because a
//! defect window can lie between the usual boundaries): conditional nesting depth, push payload length,
//! powers of two as amounts, input/output counts.
use super::{hx, pattern, replay_spaces_for, run_spaces_for, Case, Prop, Space};
use crate::engine::{coords, guard, panic_site, Acc, Ctx, Report, Tier};
use crate::refs::wire as rw;
use bsv::{BSVErrors, OpCodes, Script, ScriptBit, Transaction, TxIn, TxOut};
use serde_json::{json, Value};
use std::collections::BTreeMap;
use std::sync::Arc;

pub const PROP: Prop = Prop {
    run,
    replay,
    spaces: Some(spaces),
    level_note: "differential round-trip oracle, no independent encoder exists for the library's own JSON/CBOR layout; trusted base: derived PartialEq of the library types plus the harness's field-by-field diff through public accessors, refs::wire/refs::hashes for the txid of the pre-encoding wire bytes, serde_json's Value parser for reading 64-bit literals; objects are built through the public construction API and never signed (empty sighash cache); values, script forms, nesting depths and transaction shapes outside the recorded alphabets are not covered",
};

// ------------------------------------------------------------------ alphabets

const VALUES_Q: [u64; 6] = [0, 1, 1 << 53, (1 << 53) + 1, 1 << 63, u64::MAX];
/// thorough: also both sides of every CBOR integer-width boundary and of 2^63
const VALUES_T: [u64; 17] = [0, 1, 1 << 53, (1 << 53) + 1, 1 << 63, u64::MAX, 23, 24, 255, 256, 65535, 65536, 0xffff_ffff, 1 << 32, (1 << 63) - 1, u64::MAX - 1, 2_100_000_000_000_000];
const U32S: [u32; 7] = [0, 1, 2, 0x7fff_ffff, 0x8000_0000, 0xffff_fffe, 0xffff_ffff];

/// Nesting depths of conditionals: EVERY depth up to beyond the decoders' default limits (interior depths matter as much
/// as the boundaries: a lowered limit can sit anywhere), plus two far ones.
fn depths(tier: Tier) -> Vec<usize> {
    if tier.is_thorough() {
        (1..=300).collect()
    } else {
        (1..=140).chain([200, 300]).collect()
    }
}
const DEPTH_INNER: [&str; 4] = ["innermost=OP_1,no-else", "empty-else-on-every-level", "innermost=OP_PUSHDATA1-tuple,no-else", "nested-through-the-else-branch,innermost=OP_1"];
const DEPTH_POS: [&str; 3] = ["script_sig", "locking_script", "script_pub_key"];

/// Push payload lengths: EVERY length in a contiguous range (a defect window can lie between the usual boundaries).
fn push_lengths(tier: Tier) -> Vec<usize> {
    if tier.is_thorough() {
        (0..=4200).chain(16383..=16386).chain(65535..=65537).chain([1 << 20, 4_194_305, 5_000_001, 8_388_609, 10_000_001, 16_777_217]).collect()
    } else {
        (0..=1100).chain([65535, 65536, 65537, 1 << 20, 4_194_305, 8_388_609]).collect()
    }
}
const PUSH_CARRIERS: [&str; 6] = [
    "script_sig/minimal-push",
    "locking_script/minimal-push",
    "script_pub_key/minimal-push",
    "script_sig/OP_PUSHDATA2(OP_PUSHDATA4 above 65535)",
    "script_pub_key/OP_PUSHDATA4",
    "coinbase-blob-of-this-length",
];

/// every 2^k - 1, 2^k, 2^k + 1 that fits 64 bits (thorough: the same around every power of ten and the money supply)
fn satoshi_sweep(tier: Tier) -> Vec<u64> {
    let mut v: Vec<u64> = vec![0, u64::MAX];
    for k in 0..64u32 {
        let p = 1u64 << k;
        v.extend_from_slice(&[p - 1, p, p + 1]);
    }
    if tier.is_thorough() {
        let mut p = 1u64;
        for _ in 0..20 {
            v.extend_from_slice(&[p - 1, p, p + 1]);
            p = p.saturating_mul(10);
        }
        v.extend_from_slice(&[2_099_999_999_999_999, 2_100_000_000_000_000, 2_100_000_000_000_001]);
    }
    v.sort();
    v.dedup();
    v
}
const SAT_PLACES: [&str; 3] = ["input-satoshis", "output-value", "input-satoshis+locking-script+output-value"];

fn counts(tier: Tier) -> Vec<usize> {
    if tier.is_thorough() {
        (0..=40).chain([252, 253, 255, 256, 257]).collect()
    } else {
        (0..=20).collect()
    }
}

fn values(tier: Tier) -> Vec<u64> {
    if tier.is_thorough() {
        VALUES_T.to_vec()
    } else {
        VALUES_Q.to_vec()
    }
}

#[derive(Clone)]
struct Sc {
    name: String,
    script: Script,
}

fn direct(data: &[u8]) -> Vec<u8> {
    assert!(!data.is_empty() && data.len() <= 75);
    let mut v = vec![data.len() as u8];
    v.extend_from_slice(data);
    v
}
fn pd1(data: &[u8]) -> Vec<u8> {
    let mut v = vec![0x4c, data.len() as u8];
    v.extend_from_slice(data);
    v
}
fn pd2(data: &[u8]) -> Vec<u8> {
    let mut v = vec![0x4d];
    v.extend_from_slice(&(data.len() as u16).to_le_bytes());
    v.extend_from_slice(data);
    v
}
fn pd4(data: &[u8]) -> Vec<u8> {
    let mut v = vec![0x4e];
    v.extend_from_slice(&(data.len() as u32).to_le_bytes());
    v.extend_from_slice(data);
    v
}
fn cat(parts: &[&[u8]]) -> Vec<u8> {
    parts.iter().flat_map(|p| p.iter().copied()).collect()
}
/// bytes whose hex consists of decimal digits only
fn digits(len: usize) -> Vec<u8> {
    const D: [u8; 10] = [0x12, 0x34, 0x56, 0x78, 0x90, 0x01, 0x23, 0x45, 0x67, 0x89];
    (0..len).map(|i| D[i % 10]).collect()
}

struct Alpha {
    /// small alphabet used inside products
    core: Vec<Sc>,
    /// every script form, each checked in every position on its own
    full: Vec<Sc>,
    /// entries the library's own parser refused (left out; listed in the evidence)
    dropped: Vec<String>,
}

fn script_alphabet(tier: Tier) -> Alpha {
    let mut core: Vec<(String, Vec<u8>)> = vec![];
    let mut extra: Vec<(String, Vec<u8>)> = vec![];
    let c = |v: &mut Vec<(String, Vec<u8>)>, n: &str, b: Vec<u8>| v.push((n.to_string(), b));
    let p2pkh_lock = cat(&[&[0x76, 0xa9], &direct(&pattern(2, 20)), &[0x88, 0xac]]);
    let p2pkh_unlock = cat(&[&direct(&pattern(4, 71)), &direct(&pattern(5, 33))]);

    // ---- core: one or two representatives of every ScriptBit form
    c(&mut core, "empty-script", vec![]);
    c(&mut core, "OP_0", vec![0x00]);
    c(&mut core, "OP_1", vec![0x51]);
    c(&mut core, "OP_RETURN", vec![0x6a]);
    c(&mut core, "OP_CHECKSIG", vec![0xac]);
    c(&mut core, "push1:10", direct(&[0x10]));
    c(&mut core, "push2:0001", direct(&[0x00, 0x01]));
    c(&mut core, "push20:all-digit-hex", direct(&digits(20)));
    c(&mut core, "push75", direct(&pattern(2, 75)));
    c(&mut core, "pushdata1-empty(4c00)", pd1(&[]));
    c(&mut core, "pushdata1-nonminimal(4c01aa)", pd1(&[0xaa]));
    c(&mut core, "pushdata1-minimal-76", pd1(&pattern(2, 76)));
    c(&mut core, "pushdata2-empty(4d0000)", pd2(&[]));
    c(&mut core, "pushdata2-nonminimal-1", pd2(&[0xaa]));
    c(&mut core, "pushdata2-minimal-256", pd2(&pattern(4, 256)));
    c(&mut core, "pushdata4-empty(4e00000000)", pd4(&[]));
    c(&mut core, "pushdata4-nonminimal-1", pd4(&[0xaa]));
    c(&mut core, "if-endif(empty)", vec![0x63, 0x68]);
    c(&mut core, "if-else-endif(both-empty)", vec![0x63, 0x67, 0x68]);
    c(&mut core, "if-1-endif", vec![0x63, 0x51, 0x68]);
    c(&mut core, "if-1-else-2-endif", vec![0x63, 0x51, 0x67, 0x52, 0x68]);
    c(&mut core, "if-else-2-endif(empty-pass)", vec![0x63, 0x67, 0x52, 0x68]);
    c(&mut core, "if-1-else-endif(empty-fail)", vec![0x63, 0x51, 0x67, 0x68]);
    c(&mut core, "notif-nested-if-else", vec![0x64, 0x63, 0x51, 0x67, 0x52, 0x68, 0x67, 0x64, 0x53, 0x68, 0x68]);
    c(&mut core, "if-with-pushes", cat(&[&[0x63], &direct(&[0x10]), &pd1(&[0xaa]), &[0x67], &pd2(&[]), &direct(&digits(2)), &[0x68]]));
    c(&mut core, "p2pkh-locking", p2pkh_lock.clone());
    c(&mut core, "p2pkh-unlocking", p2pkh_unlock.clone());
    c(&mut core, "op_return-data", cat(&[&[0x00, 0x6a], &direct(&digits(4)), &pd1(&[0xaa]), &pd1(&pattern(2, 80))]));
    c(
        &mut core,
        "every-form",
        cat(&[&[0x51], &direct(&[0x01]), &pd1(&[]), &pd2(&[0x02]), &pd4(&[0x03, 0x04]), &[0x63, 0x64, 0x68, 0x67], &direct(&digits(3)), &[0x68, 0xac]]),
    );

    // ---- extra: the rest of the representative forms, each checked on its own in every position
    for (n, b) in [
        ("OP_1NEGATE", 0x4fu8),
        ("OP_16", 0x60),
        ("OP_NOP", 0x61),
        ("OP_DUP", 0x76),
        ("OP_HASH160", 0xa9),
        ("OP_EQUALVERIFY", 0x88),
        ("OP_CHECKMULTISIG", 0xae),
        ("OP_CODESEPARATOR", 0xab),
        ("stray-OP_ELSE", 0x67),
        ("stray-OP_ENDIF", 0x68),
    ] {
        c(&mut extra, n, vec![b]);
    }
    c(&mut extra, "push1:00", direct(&[0x00]));
    c(&mut extra, "push1:ff", direct(&[0xff]));
    c(&mut extra, "push1:81", direct(&[0x81]));
    c(&mut extra, "push1:16", direct(&[0x16]));
    c(&mut extra, "push2:1000", direct(&[0x10, 0x00]));
    for n in [3usize, 32, 33, 65, 71, 72, 73, 74] {
        c(&mut extra, &format!("push{}", n), direct(&pattern(6, n)));
    }
    c(&mut extra, "push75:all-digit-hex", direct(&digits(75)));
    c(&mut extra, "pushdata1-nonminimal-75", pd1(&pattern(2, 75)));
    c(&mut extra, "pushdata1-255", pd1(&pattern(4, 255)));
    c(&mut extra, "pushdata1-2:all-digit-hex", pd1(&digits(2)));
    c(&mut extra, "pushdata2-nonminimal-75", pd2(&pattern(2, 75)));
    c(&mut extra, "pushdata2-nonminimal-255", pd2(&pattern(4, 255)));
    c(&mut extra, "pushdata2-2048", pd2(&pattern(5, 2048)));
    c(&mut extra, "pushdata2-2049", pd2(&pattern(5, 2049)));
    c(&mut extra, "pushdata2-65535", pd2(&pattern(6, 65535)));
    c(&mut extra, "pushdata4-nonminimal-75", pd4(&pattern(2, 75)));
    c(&mut extra, "pushdata4-nonminimal-256", pd4(&pattern(4, 256)));
    c(&mut extra, "pushdata4-nonminimal-65535", pd4(&pattern(6, 65535)));
    c(&mut extra, "pushdata4-minimal-65536", pd4(&pattern(7, 65536)));
    c(&mut extra, "notif-1-endif", vec![0x64, 0x51, 0x68]);
    c(&mut extra, "verif-1-endif", vec![0x65, 0x51, 0x68]);
    c(&mut extra, "vernotif-1-else-endif", vec![0x66, 0x51, 0x67, 0x68]);
    c(&mut extra, "if-if-1-endif-endif", vec![0x63, 0x63, 0x51, 0x68, 0x68]);
    c(&mut extra, "if-if-endif-endif(empty)", vec![0x63, 0x63, 0x68, 0x68]);
    c(&mut extra, "if-1-if-endif-else-if-else-endif-endif", vec![0x63, 0x51, 0x63, 0x68, 0x67, 0x63, 0x67, 0x68, 0x68]);
    c(&mut extra, "if-else-else-endif", vec![0x63, 0x67, 0x67, 0x68]);
    c(&mut extra, "depth3-with-else", vec![0x63, 0x63, 0x63, 0x51, 0x67, 0x52, 0x68, 0x67, 0x53, 0x68, 0x67, 0x54, 0x68]);
    c(&mut extra, "1-if-2-endif-3-if-4-else-5-endif", vec![0x51, 0x63, 0x52, 0x68, 0x53, 0x63, 0x54, 0x67, 0x55, 0x68]);
    c(&mut extra, "if-codeseparator-checksig-endif", vec![0x63, 0xab, 0xac, 0x68]);
    c(&mut extra, "op_return-truncated-push(6a05)", vec![0x6a, 0x05]);
    c(&mut extra, "op_return-truncated-push(6a05aabb)", vec![0x6a, 0x05, 0xaa, 0xbb]);
    c(&mut extra, "multisig-2of3", cat(&[&[0x52], &direct(&pattern(2, 33)), &direct(&pattern(4, 33)), &direct(&pattern(5, 33)), &[0x53, 0xae]]));
    if tier.is_thorough() {
        for n in 4..=31usize {
            c(&mut extra, &format!("push{}", n), direct(&pattern(8, n)));
        }
        for n in [77usize, 100, 128, 200, 254] {
            c(&mut extra, &format!("pushdata1-{}", n), pd1(&pattern(9, n)));
        }
        for n in [257usize, 1000, 4095, 4096, 4097, 32768] {
            c(&mut extra, &format!("pushdata2-{}", n), pd2(&pattern(9, n)));
        }
        c(&mut extra, "pushdata4-100000", pd4(&pattern(3, 100_000)));
    }

    let mut dropped = vec![];
    let parse = |list: Vec<(String, Vec<u8>)>, dropped: &mut Vec<String>| -> Vec<Sc> {
        let mut out = vec![];
        for (name, bytes) in list {
            match guard(|| Script::from_bytes(&bytes)) {
                Ok(Ok(script)) => out.push(Sc { name, script }),
                _ => dropped.push(name),
            }
        }
        out
    };
    let core_sc = parse(core, &mut dropped);
    let mut full = core_sc.clone();
    full.extend(parse(extra, &mut dropped));
    // forms that only the construction API yields (the parser never produces them on their own)
    full.push(Sc { name: "bits:empty-direct-push".into(), script: Script::from_script_bits(vec![ScriptBit::Push(vec![])]) });
    full.push(Sc { name: "bits:1-empty-direct-push-1".into(), script: Script::from_script_bits(vec![ScriptBit::OpCode(OpCodes::OP_1), ScriptBit::Push(vec![]), ScriptBit::OpCode(OpCodes::OP_1)]) });
    Alpha { core: core_sc, full, dropped }
}

/// Coinbase script blobs: arbitrary bytes, parseable as a script or not.
fn coinbase_alphabet(tier: Tier) -> Vec<(String, Vec<u8>)> {
    let genesis = hex::decode("04ffff001d0104455468652054696d65732030332f4a616e2f32303039204368616e63656c6c6f72206f6e206272696e6b206f66207365636f6e64206261696c6f757420666f722062616e6b73").unwrap();
    let mut v: Vec<(String, Vec<u8>)> = vec![
        ("cb:genesis(parseable)".into(), genesis),
        ("cb:empty".into(), vec![]),
        ("cb:OP_1(parseable)".into(), vec![0x51]),
        ("cb:bip34-height+text(unparseable)".into(), cat(&[&[0x03, 0xa0, 0xbb, 0x0d], b"/miner tag/"])),
        ("cb:truncated-push(05aa)".into(), vec![0x05, 0xaa]),
        ("cb:truncated-pushdata(4c)".into(), vec![0x4c]),
        ("cb:unbalanced-if(63)".into(), vec![0x63]),
        ("cb:100-bytes".into(), pattern(2, 100)),
    ];
    if tier.is_thorough() {
        v.push(("cb:2-bytes".into(), vec![0x04, 0xff]));
        v.push(("cb:75-bytes".into(), pattern(4, 75)));
        v.push(("cb:76-bytes".into(), pattern(4, 76)));
        v.push(("cb:256-bytes".into(), pattern(5, 256)));
        v.push(("cb:all-digit-hex".into(), digits(8)));
    }
    v
}

fn coinbase_script(bytes: &[u8]) -> Script {
    match Script::from_coinbase_bytes(bytes) {
        Ok(s) => s,
        Err(_) => Script::from_script_bits(vec![ScriptBit::Coinbase(bytes.to_vec())]),
    }
}

fn coinbase_in(bytes: &[u8], seq: u32) -> TxIn {
    TxIn::new(&[0u8; 32], 0xffff_ffff, &coinbase_script(bytes), Some(seq))
}

fn ordinary_in(script: &Script, txid_pat: u64, vout: u32, seq: u32) -> TxIn {
    TxIn::new(&pattern(txid_pat, 32), vout, script, Some(seq))
}

#[derive(Clone)]
enum Ext {
    None,
    Sats(u64),
    Lock(usize),
    Both(u64, usize),
}

fn apply_ext(i: &mut TxIn, e: &Ext, scripts: &[Sc]) -> Value {
    match e {
        Ext::None => json!("none"),
        Ext::Sats(v) => {
            i.set_satoshis(*v);
            json!({"satoshis": v})
        }
        Ext::Lock(l) => {
            i.set_locking_script(&scripts[*l].script);
            json!({"locking_script": scripts[*l].name})
        }
        Ext::Both(v, l) => {
            i.set_satoshis(*v);
            i.set_locking_script(&scripts[*l].script);
            json!({"satoshis": v, "locking_script": scripts[*l].name})
        }
    }
}

// ------------------------------------------------------------------ structural diff

fn form(b: &ScriptBit) -> String {
    match b {
        ScriptBit::OpCode(_) => "opcode".into(),
        ScriptBit::Push(_) => "push".into(),
        ScriptBit::PushData(c, _) => format!("{:?}", c).to_lowercase().trim_start_matches("op_").to_string(),
        ScriptBit::If { .. } => "if".into(),
        ScriptBit::Coinbase(_) => "coinbase".into(),
    }
}

/// First difference between two ScriptBit lists, named by the forms involved.
fn diff_bits(a: &[ScriptBit], b: &[ScriptBit]) -> Option<String> {
    for i in 0..a.len().max(b.len()) {
        match (a.get(i), b.get(i)) {
            (Some(x), Some(y)) if x == y => continue,
            (Some(ScriptBit::If { code: c1, pass: p1, fail: f1 }), Some(ScriptBit::If { code: c2, pass: p2, fail: f2 })) => {
                if c1 != c2 {
                    return Some("if:code-changed".into());
                }
                let inner = |t: String| if t.starts_with("in-if:") { t } else { format!("in-if:{}", t) };
                if let Some(t) = diff_bits(p1, p2) {
                    return Some(inner(t));
                }
                return Some(match (f1, f2) {
                    (None, Some(_)) => "if:else-appeared".into(),
                    (Some(_), None) => "if:else-lost".into(),
                    (Some(x), Some(y)) => inner(diff_bits(x, y).unwrap_or_else(|| "unclassified".into())),
                    (None, None) => "if:unclassified".into(),
                });
            }
            (Some(x), Some(y)) => {
                return Some(if form(x) == form(y) { format!("{}:payload-changed", form(x)) } else { format!("{}->{}", form(x), form(y)) });
            }
            (Some(x), None) => return Some(format!("{}->missing", form(x))),
            (None, Some(y)) => return Some(format!("extra-{}", form(y))),
            (None, None) => {}
        }
    }
    None
}

fn diff_script(field: &str, a: &Script, b: &Script, tags: &mut Vec<String>) {
    if let Some(t) = diff_bits(&a.to_script_bits(), &b.to_script_bits()) {
        tags.push(format!("{}:{}", field, t));
    } else if a != b {
        tags.push(format!("{}:unclassified", field));
    }
}

fn diff_txin(a: &TxIn, b: &TxIn, tags: &mut Vec<String>) {
    if a.get_prev_tx_id(None) != b.get_prev_tx_id(None) {
        tags.push("prev_tx_id".into());
    }
    if a.get_vout() != b.get_vout() {
        tags.push("vout".into());
    }
    if a.get_sequence() != b.get_sequence() {
        tags.push("sequence".into());
    }
    match (a.get_satoshis(), b.get_satoshis()) {
        (x, y) if x == y => {}
        (Some(_), None) => tags.push("satoshis:lost".into()),
        (None, Some(_)) => tags.push("satoshis:appeared".into()),
        _ => tags.push("satoshis:value-changed".into()),
    }
    diff_script("script_sig", &a.get_unlocking_script(), &b.get_unlocking_script(), tags);
    match (a.get_locking_script(), b.get_locking_script()) {
        (None, None) => {}
        (Some(_), None) => tags.push("locking_script:lost".into()),
        (None, Some(_)) => tags.push("locking_script:appeared".into()),
        (Some(x), Some(y)) => {
            let n = tags.len();
            diff_script("locking_script", &x, &y, tags);
            if tags.len() == n && a.get_locking_script_bytes() != b.get_locking_script_bytes() {
                tags.push("locking_script_bytes".into());
            }
        }
    }
}

fn diff_tx(a: &Transaction, b: &Transaction, tags: &mut Vec<String>) {
    if a.get_version() != b.get_version() {
        tags.push("version".into());
    }
    if a.get_n_locktime() != b.get_n_locktime() {
        tags.push("n_locktime".into());
    }
    if a.get_ninputs() != b.get_ninputs() {
        tags.push("input-count".into());
    }
    if a.get_noutputs() != b.get_noutputs() {
        tags.push("output-count".into());
    }
    for i in 0..a.get_ninputs().min(b.get_ninputs()) {
        if let (Some(x), Some(y)) = (a.get_input(i), b.get_input(i)) {
            diff_txin(&x, &y, tags);
        }
    }
    for i in 0..a.get_noutputs().min(b.get_noutputs()) {
        if let (Some(x), Some(y)) = (a.get_output(i), b.get_output(i)) {
            if x.get_satoshis() != y.get_satoshis() {
                tags.push("output-value".into());
            }
            diff_script("script_pub_key", &x.get_script_pub_key(), &y.get_script_pub_key(), tags);
        }
    }
}

// ------------------------------------------------------------------ the objects under test

type LibErr = (String, String); // (kind suffix: "error" | "panic@site", message)

fn flat<T>(r: Result<Result<T, BSVErrors>, String>) -> Result<T, LibErr> {
    match r {
        Ok(Ok(v)) => Ok(v),
        Ok(Err(e)) => Err(("error".into(), e.to_string())),
        Err(p) => Err((format!("panic@{}", panic_site(&p)), p)),
    }
}

fn flat_serde<T>(r: Result<Result<T, serde_json::Error>, String>) -> Result<T, LibErr> {
    match r {
        Ok(Ok(v)) => Ok(v),
        Ok(Err(e)) => Err(("error".into(), e.to_string())),
        Err(p) => Err((format!("panic@{}", panic_site(&p)), p)),
    }
}

/// Stable slug of an error message (no positions, no digits).
fn slug(msg: &str) -> String {
    let m = match msg.find(" at line ") {
        Some(i) => &msg[..i],
        None => msg,
    };
    let mut s = String::new();
    for ch in m.chars() {
        if ch.is_ascii_digit() {
            continue;
        }
        if ch.is_ascii_alphanumeric() {
            s.push(ch.to_ascii_lowercase());
        } else if !s.ends_with('-') {
            s.push('-');
        }
        if s.len() >= 64 {
            break;
        }
    }
    s.trim_matches('-').to_string()
}

trait Obj: Sized + PartialEq {
    const NAME: &'static str;
    fn enc_json_string(&self) -> Result<String, LibErr>;
    fn dec_json_string(s: &str) -> Result<Self, LibErr>;
    fn enc_json_value(&self) -> Result<Value, LibErr>;
    fn dec_json_value(v: Value) -> Result<Self, LibErr>;
    fn enc_cbor(&self) -> Result<Vec<u8>, LibErr>;
    fn dec_cbor(b: &[u8]) -> Result<Self, LibErr>;
    fn enc_cbor_hex(&self) -> Result<String, LibErr>;
    fn dec_cbor_hex(s: &str) -> Result<Self, LibErr>;
    fn wire(&self) -> Result<Vec<u8>, LibErr>;
    /// txid (transactions only)
    fn id_hex(&self) -> Option<Result<String, LibErr>>;
    fn diff(&self, other: &Self, tags: &mut Vec<String>);
    /// (json pointer-ish description, original u64) of every 64-bit field, as located in the emitted JSON
    fn u64_fields(&self) -> Vec<(String, Vec<String>, u64)>;
    /// container levels (arrays + maps) the library's serde layout needs for this object — see `bits_nesting`
    fn nesting(&self) -> usize;
}

/// Container nesting of a script in the library's serde layout, learned from the implementation
/// (`Script` = array of bits; `If` = map holding the branch arrays; `PushData` = 2-tuple; the rest scalars).
/// Used only to name the input class in the key of a recursion-limit refusal, never as an expectation.
fn bits_nesting(bits: &[ScriptBit]) -> usize {
    1 + bits
        .iter()
        .map(|b| match b {
            ScriptBit::If { pass, fail, .. } => 1 + bits_nesting(pass).max(fail.as_ref().map(|f| bits_nesting(f)).unwrap_or(0)),
            ScriptBit::PushData(..) => 1,
            _ => 0,
        })
        .max()
        .unwrap_or(0)
}

fn txin_nesting(i: &TxIn) -> usize {
    1 + bits_nesting(&i.get_unlocking_script().to_script_bits()).max(i.get_locking_script().map(|l| bits_nesting(&l.to_script_bits())).unwrap_or(0))
}

fn tx_nesting(t: &Transaction) -> usize {
    let ins = (0..t.get_ninputs()).filter_map(|i| t.get_input(i)).map(|i| txin_nesting(&i)).max().unwrap_or(0);
    let outs = (0..t.get_noutputs()).filter_map(|i| t.get_output(i)).map(|o| 1 + bits_nesting(&o.get_script_pub_key().to_script_bits())).max().unwrap_or(0);
    2 + ins.max(outs)
}

/// First nesting level the decoders' *default* limits refuse on the unchanged library:
/// serde_json (limit 128) refuses the 128th nested container, ciborium (limit 256) the 257th.
/// `serde_json::from_value` has no limit.
const JSON_REFUSED_NESTING: usize = 128;
const CBOR_REFUSED_NESTING: usize = 257;

impl Obj for Transaction {
    const NAME: &'static str = "Transaction";
    fn enc_json_string(&self) -> Result<String, LibErr> {
        flat(guard(|| self.to_json_string()))
    }
    fn dec_json_string(s: &str) -> Result<Self, LibErr> {
        flat(guard(|| Transaction::from_json_string(s)))
    }
    fn enc_json_value(&self) -> Result<Value, LibErr> {
        flat(guard(|| self.to_json()))
    }
    fn dec_json_value(v: Value) -> Result<Self, LibErr> {
        flat_serde(guard(|| serde_json::from_value::<Transaction>(v)))
    }
    fn enc_cbor(&self) -> Result<Vec<u8>, LibErr> {
        flat(guard(|| self.to_compact_bytes()))
    }
    fn dec_cbor(b: &[u8]) -> Result<Self, LibErr> {
        flat(guard(|| Transaction::from_compact_bytes(b)))
    }
    fn enc_cbor_hex(&self) -> Result<String, LibErr> {
        flat(guard(|| self.to_compact_hex()))
    }
    fn dec_cbor_hex(s: &str) -> Result<Self, LibErr> {
        flat(guard(|| Transaction::from_compact_hex(s)))
    }
    fn wire(&self) -> Result<Vec<u8>, LibErr> {
        flat(guard(|| self.to_bytes()))
    }
    fn id_hex(&self) -> Option<Result<String, LibErr>> {
        Some(flat(guard(|| self.get_id_hex())))
    }
    fn diff(&self, other: &Self, tags: &mut Vec<String>) {
        diff_tx(self, other, tags)
    }
    fn nesting(&self) -> usize {
        tx_nesting(self)
    }
    fn u64_fields(&self) -> Vec<(String, Vec<String>, u64)> {
        let mut v = vec![];
        for i in 0..self.get_ninputs() {
            if let Some(s) = self.get_input(i).and_then(|x| x.get_satoshis()) {
                v.push(("input-satoshis".to_string(), vec!["inputs".into(), i.to_string(), "satoshis".into()], s));
            }
        }
        for i in 0..self.get_noutputs() {
            if let Some(o) = self.get_output(i) {
                v.push(("output-value".to_string(), vec!["outputs".into(), i.to_string(), "value".into()], o.get_satoshis()));
            }
        }
        v
    }
}

impl Obj for TxIn {
    const NAME: &'static str = "TxIn";
    fn enc_json_string(&self) -> Result<String, LibErr> {
        flat(guard(|| self.to_json_string()))
    }
    fn dec_json_string(s: &str) -> Result<Self, LibErr> {
        flat_serde(guard(|| serde_json::from_str::<TxIn>(s)))
    }
    fn enc_json_value(&self) -> Result<Value, LibErr> {
        flat(guard(|| self.to_json()))
    }
    fn dec_json_value(v: Value) -> Result<Self, LibErr> {
        flat_serde(guard(|| serde_json::from_value::<TxIn>(v)))
    }
    fn enc_cbor(&self) -> Result<Vec<u8>, LibErr> {
        flat(guard(|| self.to_compact_bytes()))
    }
    fn dec_cbor(b: &[u8]) -> Result<Self, LibErr> {
        flat(guard(|| TxIn::from_compact_bytes(b)))
    }
    fn enc_cbor_hex(&self) -> Result<String, LibErr> {
        flat(guard(|| self.to_compact_hex()))
    }
    fn dec_cbor_hex(s: &str) -> Result<Self, LibErr> {
        flat(guard(|| TxIn::from_compact_hex(s)))
    }
    fn wire(&self) -> Result<Vec<u8>, LibErr> {
        flat(guard(|| self.to_bytes()))
    }
    fn id_hex(&self) -> Option<Result<String, LibErr>> {
        None
    }
    fn diff(&self, other: &Self, tags: &mut Vec<String>) {
        diff_txin(self, other, tags)
    }
    fn nesting(&self) -> usize {
        txin_nesting(self)
    }
    fn u64_fields(&self) -> Vec<(String, Vec<String>, u64)> {
        match self.get_satoshis() {
            Some(s) => vec![("input-satoshis".to_string(), vec!["satoshis".into()], s)],
            None => vec![],
        }
    }
}

fn walk<'a>(v: &'a Value, path: &[String]) -> Option<&'a Value> {
    let mut cur = v;
    for p in path {
        cur = match cur {
            Value::Array(a) => a.get(p.parse::<usize>().ok()?)?,
            Value::Object(o) => o.get(p)?,
            _ => return None,
        };
    }
    Some(cur)
}

struct Sink {
    /// key -> (entry points, first detail)
    found: BTreeMap<String, (Vec<String>, String)>,
}

impl Sink {
    fn add(&mut self, key: String, entry: &str, detail: String) {
        let e = self.found.entry(key).or_insert((vec![], detail));
        if !e.0.iter().any(|x| x == entry) {
            e.0.push(entry.to_string());
        }
    }
}

/// Run all four encode/decode pairs on one freshly built object and compare.
/// Returns one status byte per entry-point pair.
fn roundtrip<T: Obj>(acc: &mut Acc, case: &Case, t: &T, input: &dyn Fn() -> Value) -> [u8; 4] {
    let mut sink = Sink { found: BTreeMap::new() };
    let mut status = [0u8; 4];
    acc.transitions += 1;
    let wire0 = match t.wire() {
        Ok(w) => w,
        Err((k, m)) => {
            // not this property's subject (C01/C09); nothing to compare against
            acc.bump("original_to_bytes_failed", 1);
            acc.outcome(format!("wire0-{}-{}", k, slug(&m)).as_bytes());
            return [9; 4];
        }
    };
    let id0 = t.id_hex().map(|r| {
        acc.transitions += 1;
        r.unwrap_or_default()
    });
    let id_ref = hex::encode(rw::txid_display(&wire0));

    // compare one decoded object with the original
    let compare = |sink: &mut Sink, acc: &mut Acc, fam: &str, entry: &str, d: &T| -> u8 {
        acc.traces += 1;
        let mut tags = vec![];
        t.diff(d, &mut tags);
        tags.sort();
        tags.dedup();
        acc.transitions += 1;
        let wire1 = d.wire();
        let wire_same = matches!(&wire1, Ok(w) if *w == wire0);
        let id_same = match d.id_hex() {
            None => true,
            Some(r) => {
                acc.transitions += 1;
                let got = r.unwrap_or_else(|e| format!("<{}: {}>", e.0, e.1));
                got == id_ref && Some(&got) == id0.as_ref()
            }
        };
        let eq = d == t;
        if tags.is_empty() && eq && wire_same && id_same {
            return 0;
        }
        let w1 = match &wire1 {
            Ok(w) => hxl(w),
            Err(e) => format!("<{}: {}>", e.0, e.1),
        };
        let detail = format!(
            "{} decode(encode(t)) != t: differing parts {:?}; PartialEq={} wire_equal={} txid_equal={}; wire before={} wire after={}",
            T::NAME,
            tags,
            eq,
            wire_same,
            id_same,
            hxl(&wire0),
            w1
        );
        if tags.is_empty() {
            let what = if !eq {
                "unclassified(partial-eq)"
            } else if !wire_same {
                "wire-bytes-only"
            } else {
                "txid-only"
            };
            sink.add(format!("C18/{}/kind=roundtrip-not-equal/what={}", fam, what), entry, detail);
        } else {
            for tag in &tags {
                sink.add(format!("C18/{}/kind=roundtrip-not-equal/what={}", fam, tag), entry, detail.clone());
            }
        }
        1
    };
    let fail = |sink: &mut Sink, fam: &str, entry: &str, stage: &str, e: &LibErr| -> u8 {
        let mut key = if e.0 == "error" { format!("C18/{}/kind={}-error", fam, stage) } else { format!("C18/{}/kind={}-{}", fam, stage, e.0) };
        let mut note = String::new();
        if e.0 == "error" {
            // A refusal is identified by the input class it hits, not by the wording of the error (which belongs to serde_json /
            // ciborium and to the library's error type): at or above the nesting level that the parsers' default limits refuse
            // on the unchanged library, or below it. A refusal below that level - whatever its message - is a different defect.
            let n = t.nesting();
            let first_refused = if fam == "json" { JSON_REFUSED_NESTING } else { CBOR_REFUSED_NESTING };
            key.push_str(&if n >= first_refused { format!("/nesting>={}", first_refused) } else { format!("/nesting<{}", first_refused) });
            note = format!(" (the object needs {} nested containers in the library's layout; error class {})", n, slug(&e.1));
        }
        sink.add(key, entry, format!("{} {} failed: {}{}; wire of the original={}", T::NAME, entry, e.1, note, hx(&wire0)));
        if stage == "encode" {
            3
        } else {
            2
        }
    };

    // 1. JSON string
    {
        let (fam, entry) = ("json", "to_json_string/from_json_string(serde_json::from_str)");
        acc.transitions += 1;
        status[0] = match t.enc_json_string() {
            Err(e) => fail(&mut sink, fam, entry, "encode", &e),
            Ok(s) => {
                // read the 64-bit literals back with a plain JSON parser
                let fields = t.u64_fields();
                if !fields.is_empty() {
                    match serde_json::from_str::<Value>(&s) {
                        Ok(v) => {
                            for (name, path, want) in fields {
                                match walk(&v, &path) {
                                    Some(n) if n.is_u64() => {
                                        if n.as_u64() == Some(want) {
                                            acc.bump("json_u64_literal_exact", 1);
                                        } else {
                                            sink.add(format!("C18/json/kind=encoded-u64-differs/field={}", name), entry, format!("JSON text carries {} for {} = {}", n, path.join("."), want));
                                        }
                                    }
                                    Some(_) => acc.bump("json_u64_field_not_a_plain_unsigned_number", 1),
                                    None => acc.bump("json_u64_field_not_found_at_expected_path", 1),
                                }
                            }
                        }
                        Err(_) => acc.bump("json_text_not_readable_by_plain_value_parser", 1),
                    }
                }
                acc.transitions += 1;
                match T::dec_json_string(&s) {
                    Err(e) => fail(&mut sink, fam, entry, "decode", &e),
                    Ok(d) => compare(&mut sink, acc, fam, entry, &d),
                }
            }
        };
    }
    // 2. JSON value
    {
        let (fam, entry) = ("json", "to_json/serde_json::from_value");
        acc.transitions += 1;
        status[1] = match t.enc_json_value() {
            Err(e) => fail(&mut sink, fam, entry, "encode", &e),
            Ok(v) => {
                acc.transitions += 1;
                match T::dec_json_value(v) {
                    Err(e) => fail(&mut sink, fam, entry, "decode", &e),
                    Ok(d) => compare(&mut sink, acc, fam, entry, &d),
                }
            }
        };
    }
    // 3. CBOR bytes
    let mut cbor_len = 0usize;
    {
        let (fam, entry) = ("cbor", "to_compact_bytes/from_compact_bytes");
        acc.transitions += 1;
        status[2] = match t.enc_cbor() {
            Err(e) => fail(&mut sink, fam, entry, "encode", &e),
            Ok(b) => {
                cbor_len = b.len();
                acc.transitions += 1;
                match T::dec_cbor(&b) {
                    Err(e) => fail(&mut sink, fam, entry, "decode", &e),
                    Ok(d) => compare(&mut sink, acc, fam, entry, &d),
                }
            }
        };
    }
    // 4. CBOR hex
    {
        let (fam, entry) = ("cbor", "to_compact_hex/from_compact_hex");
        acc.transitions += 1;
        status[3] = match t.enc_cbor_hex() {
            Err(e) => fail(&mut sink, fam, entry, "encode", &e),
            Ok(h) => {
                acc.transitions += 1;
                match T::dec_cbor_hex(&h) {
                    Err(e) => fail(&mut sink, fam, entry, "decode", &e),
                    Ok(d) => compare(&mut sink, acc, fam, entry, &d),
                }
            }
        };
    }
    acc.states_structural += 1 + status.iter().filter(|s| **s <= 1).count() as u64;
    let mut o = status.to_vec();
    o.push(T::NAME.len() as u8);
    o.push((cbor_len % 251) as u8);
    acc.outcome(&o);
    if !sink.found.is_empty() {
        let inp = input();
        for (key, (entries, detail)) in sink.found {
            acc.violate(key, case.idx, case.json(inp.clone()), format!("via {}: {}", entries.join(" and "), detail));
        }
    }
    status
}

/// hex for artefacts: complete up to 400 bytes
fn hxl(b: &[u8]) -> String {
    if b.len() <= 400 {
        hex::encode(b)
    } else {
        format!("{}…({} bytes)", hex::encode(&b[..60]), b.len())
    }
}

fn txin_desc(i: &TxIn) -> Value {
    json!({
        "wire": i.to_bytes().map(|b| hxl(&b)).unwrap_or_default(),
        "coinbase_outpoint": i.is_coinbase(),
        "satoshis": i.get_satoshis(),
        "locking_script": i.get_locking_script_bytes().map(|b| hxl(&b)),
    })
}

fn tx_desc(t: &Transaction) -> Value {
    let ins: Vec<Value> = (0..t.get_ninputs()).filter_map(|i| t.get_input(i)).map(|i| json!({"coinbase_outpoint": i.is_coinbase(), "satoshis": i.get_satoshis(), "locking_script": i.get_locking_script_bytes().map(|b| hx(&b))})).collect();
    json!({"wire": t.to_bytes().map(|b| hxl(&b)).unwrap_or_default(), "inputs_extended": ins})
}

/// One case = one evaluation; checks the transaction and each of its inputs on its own.
fn check_tx(acc: &mut Acc, case: &Case, t: &Transaction, names: Value, inputs_alone: bool) -> [u8; 4] {
    acc.evaluations += 1;
    let tx_status = roundtrip(acc, case, t, &|| json!({"object": "Transaction", "built_from": names, "tx": tx_desc(t)}));
    let mut compared = tx_status.iter().any(|s| *s <= 1);
    if inputs_alone {
        for k in 0..t.get_ninputs() {
            if let Some(i) = t.get_input(k) {
                compared |= roundtrip(acc, case, &i, &|| json!({"object": "TxIn", "input_index": k, "built_from": names, "txin": txin_desc(&i)})).iter().any(|s| *s <= 1);
            }
        }
    }
    if compared {
        acc.nontrivial_structural += 1;
    }
    tx_status
}

fn fixed_out(sc: &Alpha) -> TxOut {
    TxOut::new((1 << 53) + 1, &sc.core.iter().find(|s| s.name == "p2pkh-locking").map(|s| s.script.clone()).unwrap_or_default())
}

fn tx_of(version: u32, locktime: u32, ins: &[TxIn], outs: &[TxOut]) -> Transaction {
    let mut t = Transaction::new(version, locktime);
    for i in ins {
        t.add_input(i);
    }
    for o in outs {
        t.add_output(o);
    }
    t
}

/// index -> (n, digits base k) over all tuples of length 0..=3
fn tuple_of(mut idx: u64, k: u64) -> Vec<usize> {
    let mut n = 0u32;
    loop {
        let c = k.pow(n);
        if idx < c {
            break;
        }
        idx -= c;
        n += 1;
    }
    let mut out = vec![0usize; n as usize];
    for j in (0..n as usize).rev() {
        out[j] = (idx % k) as usize;
        idx /= k;
    }
    out
}

fn tuples_upto3(k: u64) -> u64 {
    1 + k + k * k + k * k * k
}

struct NamedIn {
    name: String,
    txin: TxIn,
}
struct NamedOut {
    name: String,
    txout: TxOut,
}

fn shape_alphabets(tier: Tier, a: &Alpha) -> (Vec<NamedIn>, Vec<NamedOut>) {
    let s = |n: &str| a.full.iter().find(|x| x.name == n).map(|x| x.script.clone()).unwrap_or_default();
    let genesis_cb = coinbase_alphabet(tier)[0].1.clone();
    let mut ins: Vec<NamedIn> = vec![];
    let mut add_in = |name: &str, mut i: TxIn, sats: Option<u64>, lock: Option<Script>| {
        if let Some(v) = sats {
            i.set_satoshis(v);
        }
        if let Some(l) = lock {
            i.set_locking_script(&l);
        }
        ins.push(NamedIn { name: name.into(), txin: i });
    };
    add_in("ordinary/p2pkh-unlock/no-ext", ordinary_in(&s("p2pkh-unlocking"), 2, 0, 0xffff_ffff), None, None);
    add_in("ordinary/p2pkh-unlock/sats=2^64-1+lock=p2pkh", ordinary_in(&s("p2pkh-unlocking"), 4, 1, 0), Some(u64::MAX), Some(s("p2pkh-locking")));
    add_in("coinbase/genesis/no-ext", coinbase_in(&genesis_cb, 0xffff_ffff), None, None);
    add_in("ordinary/nonminimal-pushdata/sats=2^53+1", ordinary_in(&s("every-form"), 5, 0xffff_fffe, 0xffff_fffe), Some((1 << 53) + 1), None);
    add_in("ordinary/empty-sig/lock=nested-if", ordinary_in(&s("empty-script"), 1, 2, 1), None, Some(s("notif-nested-if-else")));
    add_in("coinbase/unparseable/sats=2^63+lock=OP_1", coinbase_in(&[0x04, 0xff, 0xff, 0x00, 0x1d, 0x4c], 0), Some(1 << 63), Some(s("OP_1")));
    add_in("ordinary/if-sig/sats=0+lock=empty-script", ordinary_in(&s("if-1-else-2-endif"), 6, 0xffff_ffff, 0x8000_0000), Some(0), Some(s("empty-script")));
    if tier.is_thorough() {
        add_in("ordinary/zero-txid-vout0/sats=1", ordinary_in(&s("pushdata1-empty(4c00)"), 0, 0, 0xffff_ffff), Some(1), None);
        add_in("ordinary/push75/sats=2^53+lock=pushdata2-256", ordinary_in(&s("push75"), 7, 3, 2), Some(1 << 53), Some(s("pushdata2-minimal-256")));
    }
    let mut outs: Vec<NamedOut> = vec![];
    let mut add_out = |name: &str, v: u64, sc: Script| outs.push(NamedOut { name: name.into(), txout: TxOut::new(v, &sc) });
    add_out("0/empty-script", 0, s("empty-script"));
    add_out("2^64-1/p2pkh", u64::MAX, s("p2pkh-locking"));
    add_out("2^53+1/op_return-data", (1 << 53) + 1, s("op_return-data"));
    add_out("2^63/nested-if", 1 << 63, s("notif-nested-if-else"));
    add_out("1/pushdata4-empty", 1, s("pushdata4-empty(4e00000000)"));
    if tier.is_thorough() {
        add_out("2^53/OP_1", 1 << 53, s("OP_1"));
        add_out("2^63-1/every-form", (1 << 63) - 1, s("every-form"));
    }
    (ins, outs)
}

fn nested_if(depth: usize, inner: usize) -> Vec<u8> {
    match inner {
        1 => {
            let mut b = vec![0x63u8; depth];
            for _ in 0..depth {
                b.extend_from_slice(&[0x67, 0x68]);
            }
            b
        }
        3 => {
            let mut b = vec![];
            for _ in 0..depth {
                b.extend_from_slice(&[0x63, 0x67]);
            }
            b.push(0x51);
            b.extend(vec![0x68u8; depth]);
            b
        }
        _ => {
            let mut b = vec![0x63u8; depth];
            if inner == 2 {
                b.extend_from_slice(&pd1(&[0xaa]));
            } else {
                b.push(0x51);
            }
            b.extend(vec![0x68u8; depth]);
            b
        }
    }
}

/// smallest encoding that carries `data` as a push payload (an empty payload needs OP_PUSHDATA1 00: OP_0 is an opcode to the library)
fn minimal_push(data: &[u8]) -> Vec<u8> {
    match data.len() {
        0 => pd1(data),
        1..=75 => direct(data),
        76..=255 => pd1(data),
        256..=65535 => pd2(data),
        _ => pd4(data),
    }
}

pub fn spaces(tier: Tier) -> Vec<Space> {
    let mut v = vec![];
    let alpha = Arc::new(script_alphabet(tier));
    let cbs = Arc::new(coinbase_alphabet(tier));
    let vals = Arc::new(values(tier));

    // 1. every single byte that the library's parser accepts as a one-element script, in three positions at once
    {
        let a = alpha.clone();
        v.push(Space::new("opcode-all", 256, move |case, acc| {
            let b = case.idx as u8;
            let sc = match guard(|| Script::from_bytes(&[b])) {
                Ok(Ok(s)) => s,
                _ => {
                    acc.evaluations += 1;
                    acc.bump("single_byte_not_a_script_for_the_library", 1);
                    acc.outcome(b"not-a-script");
                    return;
                }
            };
            let mut i = ordinary_in(&sc, 2, 0, 0xffff_ffff);
            i.set_satoshis(1);
            i.set_locking_script(&sc);
            let t = tx_of(1, 0, &[i], &[TxOut::new(1, &sc)]);
            let _ = &a;
            check_tx(acc, case, &t, json!({"single_byte_script": format!("{:02x}", b), "positions": "script_sig + locking_script + script_pub_key"}), true);
        }));
    }

    // 2. every script form x 4 positions
    {
        let a = alpha.clone();
        let n = a.full.len() as u64;
        v.push(Space::new("script-forms", n * 4, move |case, acc| {
            let c = coords(case.idx, &[n, 4]);
            let sc = &a.full[c[0] as usize];
            let pos = ["script_sig", "locking_script", "script_pub_key", "coinbase-blob-with-the-same-bytes"][c[1] as usize];
            let t = match c[1] {
                0 => tx_of(1, 0, &[ordinary_in(&sc.script, 2, 0, 0xffff_ffff)], &[fixed_out(&a)]),
                1 => {
                    let mut i = ordinary_in(&Script::default(), 2, 0, 0xffff_ffff);
                    i.set_locking_script(&sc.script);
                    tx_of(1, 0, &[i], &[fixed_out(&a)])
                }
                2 => tx_of(1, 0, &[], &[TxOut::new(1, &sc.script)]),
                _ => tx_of(1, 0, &[coinbase_in(&sc.script.to_bytes(), 0xffff_ffff)], &[fixed_out(&a)]),
            };
            if case.idx == 21 * 4 {
                acc.sample(1, || json!({"space": "script-forms", "script": sc.name, "position": pos, "json": guard(|| t.to_json_string().unwrap_or_default()).unwrap_or_default()}));
            }
            check_tx(acc, case, &t, json!({"script": sc.name, "position": pos}), true);
        }));
    }

    // 3. one input: (ordinary x core script | coinbase x blob) x (no ext | satoshis v | locking l | both v,l) — full product
    {
        let a = alpha.clone();
        let cb = cbs.clone();
        let nk = (a.core.len() + cb.len()) as u64;
        let mut exts = vec![Ext::None];
        for x in vals.iter() {
            exts.push(Ext::Sats(*x));
        }
        for l in 0..a.core.len() {
            exts.push(Ext::Lock(l));
        }
        for x in vals.iter() {
            for l in 0..a.core.len() {
                exts.push(Ext::Both(*x, l));
            }
        }
        let ne = exts.len() as u64;
        v.push(Space::new("txin-product", nk * ne, move |case, acc| {
            let c = coords(case.idx, &[nk, ne]);
            let k = c[0] as usize;
            let (kname, mut i) = if k < a.core.len() { (format!("ordinary:{}", a.core[k].name), ordinary_in(&a.core[k].script, 2, 1, 0xffff_fffe)) } else { (cb[k - a.core.len()].0.clone(), coinbase_in(&cb[k - a.core.len()].1, 0xffff_ffff)) };
            let e = apply_ext(&mut i, &exts[c[1] as usize], &a.core);
            let t = tx_of(2, 0, &[i], &[]);
            if case.idx == 7 || case.idx == (a.core.len() as u64) * ne + 7 {
                acc.sample(2 + (case.idx > 7) as u64, || json!({"space": "txin-product", "input": kname, "extended": e, "txin_json": guard(|| t.get_input(0).and_then(|x| x.to_json().ok())).unwrap_or_default()}));
            }
            check_tx(acc, case, &t, json!({"input": kname, "extended": e}), true);
        }));
    }

    // 4. one output: value x core script
    {
        let a = alpha.clone();
        let vs = vals.clone();
        let (nv, ns) = (vs.len() as u64, a.core.len() as u64);
        v.push(Space::new("txout-product", nv * ns, move |case, acc| {
            let c = coords(case.idx, &[nv, ns]);
            let o = TxOut::new(vs[c[0] as usize], &a.core[c[1] as usize].script);
            let mut i = ordinary_in(&Script::default(), 4, 0, 0);
            i.set_satoshis(vs[c[0] as usize]);
            let t = tx_of(1, 0xffff_ffff, &[i], &[o]);
            check_tx(acc, case, &t, json!({"output_value": vs[c[0] as usize], "output_script": a.core[c[1] as usize].name}), false);
        }));
    }

    // 5. input scalar fields: txid x vout x sequence x ext; the library's own wire parser decides the script variant
    {
        let a = alpha.clone();
        let txids: Vec<[u8; 32]> = {
            let mut one = [0u8; 32];
            one[31] = 1;
            let mut pat = [0u8; 32];
            pat.copy_from_slice(&pattern(2, 32));
            vec![[0u8; 32], one, [0xffu8; 32], pat]
        };
        let vouts: [u32; 6] = [0, 1, 0x7fff_ffff, 0x8000_0000, 0xffff_fffe, 0xffff_ffff];
        let seqs: [u32; 6] = [0xffff_ffff, 0, 1, 0x7fff_ffff, 0x8000_0000, 0xffff_fffe];
        v.push(Space::new("txin-fields", 4 * 6 * 6 * 2, move |case, acc| {
            let c = coords(case.idx, &[4, 6, 6, 2]);
            let rin = rw::RIn { txid_wire: txids[c[0] as usize], vout: vouts[c[1] as usize], script: vec![0x01, 0x10, 0x51], sequence: seqs[c[2] as usize] };
            let names = json!({"txid_wire": hex::encode(rin.txid_wire), "vout": rin.vout, "sequence": rin.sequence, "extended": c[3] == 1, "built": "TxIn::from_hex(reference wire encoding)"});
            acc.transitions += 1;
            let mut i = match guard(|| TxIn::from_hex(&hex::encode(rin.encode()))) {
                Ok(Ok(i)) => i,
                _ => {
                    acc.evaluations += 1;
                    acc.bump("reference_input_refused_by_parser", 1);
                    acc.outcome(b"input-refused");
                    return;
                }
            };
            if c[3] == 1 {
                i.set_satoshis(u64::MAX);
                i.set_locking_script(&a.core[0].script);
            }
            let t = tx_of(1, 0, &[i], &[fixed_out(&a)]);
            check_tx(acc, case, &t, names, true);
        }));
    }

    // 6. header fields: version x locktime
    {
        let a = alpha.clone();
        v.push(Space::new("tx-header", 49, move |case, acc| {
            let c = coords(case.idx, &[7, 7]);
            let mut i = ordinary_in(&a.core[1].script, 2, 0, 0xffff_ffff);
            i.set_satoshis(1);
            let t = tx_of(U32S[c[0] as usize], U32S[c[1] as usize], &[i], &[fixed_out(&a)]);
            check_tx(acc, case, &t, json!({"version": U32S[c[0] as usize], "n_locktime": U32S[c[1] as usize]}), false);
        }));
    }

    // 7. shapes: 0..=3 inputs x 0..=3 outputs, every tuple over the input / output alphabets, x header
    {
        let (ins, outs) = shape_alphabets(tier, &alpha);
        let (ki, ko) = (ins.len() as u64, outs.len() as u64);
        let (ni, no) = (tuples_upto3(ki), tuples_upto3(ko));
        let headers: Vec<(u32, u32)> = if tier.is_thorough() { vec![(1, 0), (2, 0xffff_ffff), (0xffff_ffff, 499_999_999), (0, 500_000_000)] } else { vec![(1, 0), (0xffff_ffff, 0xffff_ffff)] };
        let nh = headers.len() as u64;
        v.push(Space::new("tx-shapes", nh * ni * no, move |case, acc| {
            let c = coords(case.idx, &[nh, ni, no]);
            let it = tuple_of(c[1], ki);
            let ot = tuple_of(c[2], ko);
            let (ver, lt) = headers[c[0] as usize];
            let tins: Vec<TxIn> = it.iter().map(|k| ins[*k].txin.clone()).collect();
            let touts: Vec<TxOut> = ot.iter().map(|k| outs[*k].txout.clone()).collect();
            let t = tx_of(ver, lt, &tins, &touts);
            let names = json!({"version": ver, "n_locktime": lt, "inputs": it.iter().map(|k| ins[*k].name.clone()).collect::<Vec<_>>(), "outputs": ot.iter().map(|k| outs[*k].name.clone()).collect::<Vec<_>>()});
            if case.idx == 0 || (it == [2usize] && ot == [0usize] && c[0] == 0) {
                acc.sample(4 + (case.idx > 0) as u64, || json!({"space": "tx-shapes", "built_from": names, "json": guard(|| t.to_json_string().unwrap_or_default()).unwrap_or_default(), "cbor_hex": guard(|| t.to_compact_hex().unwrap_or_default()).unwrap_or_default()}));
            }
            // inputs on their own are covered by spaces 2, 3 and 5; here only the first case of each input tuple re-checks them
            check_tx(acc, case, &t, names, c[2] == 0 && c[0] == 0);
        }));
    }

    // 8. nesting depth of conditionals (isolated: decoders recurse per level): every depth x inner form x position
    {
        let ds = depths(tier);
        let nd = ds.len() as u64;
        v.push(Space::isolated("if-depth", nd * 4 * 3, move |case, acc| {
            let c = coords(case.idx, &[nd, 4, 3]);
            let d = ds[c[0] as usize];
            let bytes = nested_if(d, c[1] as usize);
            let names = json!({"nested_if_depth": d, "form": DEPTH_INNER[c[1] as usize], "position": DEPTH_POS[c[2] as usize]});
            let sc = match guard(|| Script::from_bytes(&bytes)) {
                Ok(Ok(s)) => s,
                _ => {
                    acc.evaluations += 1;
                    acc.bump("nested_script_refused_by_parser", 1);
                    acc.outcome(b"nested-refused");
                    return;
                }
            };
            let t = match c[2] {
                0 => tx_of(1, 0, &[ordinary_in(&sc, 2, 0, 0xffff_ffff)], &[]),
                1 => {
                    let mut i = ordinary_in(&Script::default(), 2, 0, 0xffff_ffff);
                    i.set_locking_script(&sc);
                    tx_of(1, 0, &[i], &[])
                }
                _ => tx_of(1, 0, &[], &[TxOut::new(1, &sc)]),
            };
            let st = check_tx(acc, case, &t, names, true);
            // evidence that the nesting buckets used in the keys are exact on this tree (information only)
            let n = tx_nesting(&t);
            for (leg, s, first_refused) in [("json_string", st[0], JSON_REFUSED_NESTING), ("cbor_bytes", st[2], CBOR_REFUSED_NESTING)] {
                if s <= 1 {
                    acc.bump(&format!("{}_decoded_with_nesting_{}_the_default_refusal_level", leg, if n >= first_refused { "AT_OR_ABOVE" } else { "below" }), 1);
                    if n + 1 == first_refused {
                        acc.bump(&format!("{}_decoded_one_level_below_the_default_refusal_level", leg), 1);
                    }
                } else if s == 2 && n == first_refused {
                    acc.bump(&format!("{}_refused_exactly_at_the_default_refusal_level", leg), 1);
                }
            }
        }));
    }

    // 9. push payload length sweep: every length x carrier (position / push form), through all four entry-point pairs
    {
        let ls = push_lengths(tier);
        let (nl, nc) = (ls.len() as u64, PUSH_CARRIERS.len() as u64);
        let a = alpha.clone();
        v.push(Space::new("push-lengths", nl * nc, move |case, acc| {
            let c = coords(case.idx, &[nl, nc]);
            let n = ls[c[0] as usize];
            let data = pattern(4 + c[1], n);
            let names = json!({"push_payload_length": n, "carrier": PUSH_CARRIERS[c[1] as usize]});
            let bytes = match c[1] {
                0 | 1 | 2 => minimal_push(&data),
                3 if n <= 65535 => pd2(&data),
                3 | 4 => pd4(&data),
                _ => vec![],
            };
            let sc = if c[1] == 5 {
                Script::default()
            } else {
                match guard(|| Script::from_bytes(&bytes)) {
                    Ok(Ok(s)) => s,
                    _ => {
                        acc.evaluations += 1;
                        acc.bump("push_script_refused_by_parser", 1);
                        acc.outcome(b"push-refused");
                        return;
                    }
                }
            };
            let t = match c[1] {
                0 | 3 => tx_of(1, 0, &[ordinary_in(&sc, 2, 0, 0xffff_ffff)], &[fixed_out(&a)]),
                1 => {
                    let mut i = ordinary_in(&Script::default(), 2, 0, 0xffff_ffff);
                    i.set_satoshis(1);
                    i.set_locking_script(&sc);
                    tx_of(1, 0, &[i], &[fixed_out(&a)])
                }
                2 | 4 => tx_of(1, 0, &[], &[TxOut::new(1, &sc)]),
                _ => tx_of(1, 0, &[coinbase_in(&data, 0xffff_ffff)], &[fixed_out(&a)]),
            };
            if n == 600 && c[1] == 2 {
                acc.sample(6, || json!({"space": "push-lengths", "built_from": names, "cbor_length": guard(|| t.to_compact_bytes().map(|b| b.len()).ok()).unwrap_or_default(), "json_length": guard(|| t.to_json_string().map(|s| s.len()).ok()).unwrap_or_default()}));
            }
            check_tx(acc, case, &t, names, true);
        }));
    }

    // 9a. push payload content: every one-byte and every two-byte payload as a minimal push, in an output script and in an
    // unlocking script (hex text that spells a number, an alias or an opcode name must come back as the same push)
    {
        let a = alpha.clone();
        v.push(Space::new("push-content", (256 + 65536) * 2, move |case, acc| {
            let c = coords(case.idx, &[256 + 65536, 2]);
            let data: Vec<u8> = if c[0] < 256 { vec![c[0] as u8] } else { vec![((c[0] - 256) >> 8) as u8, (c[0] - 256) as u8] };
            let names = json!({"push_payload": hex::encode(&data), "carrier": if c[1] == 0 { "output script" } else { "unlocking script" }});
            let sc = match guard(|| Script::from_bytes(&minimal_push(&data))) {
                Ok(Ok(s)) => s,
                _ => {
                    acc.evaluations += 1;
                    acc.bump("push_script_refused_by_parser", 1);
                    return;
                }
            };
            let t = if c[1] == 0 { tx_of(1, 0, &[], &[TxOut::new(1, &sc)]) } else { tx_of(1, 0, &[ordinary_in(&sc, 2, 0, 0xffff_ffff)], &[fixed_out(&a)]) };
            check_tx(acc, case, &t, names, true);
        }));
    }

    // 10. 64-bit amounts: every power of two and its neighbours x place
    {
        let sv = satoshi_sweep(tier);
        let ns = sv.len() as u64;
        let a = alpha.clone();
        v.push(Space::new("satoshi-powers", ns * 3, move |case, acc| {
            let c = coords(case.idx, &[ns, 3]);
            let x = sv[c[0] as usize];
            let lock = a.core.iter().find(|s| s.name == "p2pkh-locking").map(|s| s.script.clone()).unwrap_or_default();
            let mut i = ordinary_in(&a.core[1].script, 5, 1, 0xffff_fffe);
            let t = match c[1] {
                0 => {
                    i.set_satoshis(x);
                    tx_of(1, 0, &[i], &[])
                }
                1 => tx_of(1, 0, &[i], &[TxOut::new(x, &lock)]),
                _ => {
                    i.set_satoshis(x);
                    i.set_locking_script(&lock);
                    tx_of(2, 0, &[i], &[TxOut::new(x, &lock), TxOut::new(x ^ 1, &Script::default())])
                }
            };
            check_tx(acc, case, &t, json!({"amount": x, "place": SAT_PLACES[c[1] as usize]}), true);
            // "64-bit values survive unchanged" is also a statement about the documents: an independent reader (serde_json's
            // generic Value here; for CBOR the RFC 8949 head of an unsigned integer) must find the amount in them as the
            // unsigned number it is - not as a wrapped negative, a float or a string that only this library maps back
            acc.transitions += 2;
            fn has_u64(v: &Value, x: u64) -> bool {
                match v {
                    Value::Number(n) => n.as_u64() == Some(x),
                    Value::Array(a) => a.iter().any(|e| has_u64(e, x)),
                    Value::Object(o) => o.values().any(|e| has_u64(e, x)),
                    _ => false,
                }
            }
            let input = || json!({"amount": x, "place": SAT_PLACES[c[1] as usize]});
            match guard(|| t.to_json_string()) {
                Ok(Ok(text)) => match serde_json::from_str::<Value>(&text) {
                    Ok(doc) if has_u64(&doc, x) => {}
                    Ok(_) => acc.violate("C18/json/kind=document-does-not-carry-the-64-bit-amount", case.idx, case.json(input()), format!("no number equal to {} in {}", x, if text.len() > 300 { &text[..300] } else { &text })),
                    Err(e) => acc.violate("C18/json/kind=document-is-not-json", case.idx, case.json(input()), e.to_string()),
                },
                _ => {} // reported by the round-trip leg
            }
            if x >= (1u64 << 32) {
                if let Ok(Ok(cb)) = guard(|| t.to_compact_bytes()) {
                    let mut head = vec![0x1bu8];
                    head.extend_from_slice(&x.to_be_bytes());
                    if !cb.windows(9).any(|w| w == &head[..]) {
                        acc.violate("C18/cbor/kind=document-does-not-carry-the-64-bit-amount", case.idx, case.json(input()), format!("no unsigned integer head 1b{:016x} in {}", x, hxl(&cb)));
                    }
                }
            }
        }));
    }

    // 11. element counts: n_inputs x n_outputs, every count
    {
        let cs = counts(tier);
        let nn = cs.len() as u64;
        let a = alpha.clone();
        let vs = vals.clone();
        v.push(Space::new("tx-counts", nn * nn, move |case, acc| {
            let c = coords(case.idx, &[nn, nn]);
            let (ni, no) = (cs[c[0] as usize], cs[c[1] as usize]);
            let k = a.core.len();
            let ins: Vec<TxIn> = (0..ni)
                .map(|j| {
                    let mut i = ordinary_in(&a.core[(j * 5 + 1) % k].script, 2 + (j as u64 % 7), j as u32, 0xffff_ffff - (j as u32 % 3));
                    match j % 4 {
                        1 => i.set_satoshis(vs[j % vs.len()]),
                        2 => i.set_locking_script(&a.core[(j * 3) % k].script),
                        3 => {
                            i.set_satoshis(vs[j % vs.len()]);
                            i.set_locking_script(&a.core[(j * 3) % k].script);
                        }
                        _ => {}
                    }
                    i
                })
                .collect();
            let outs: Vec<TxOut> = (0..no).map(|j| TxOut::new(vs[(j + 1) % vs.len()].wrapping_sub(j as u64 / vs.len() as u64), &a.core[(j * 7 + 2) % k].script)).collect();
            let t = tx_of(1, 0, &ins, &outs);
            check_tx(acc, case, &t, json!({"n_inputs": ni, "n_outputs": no, "inputs": "ordinary, core script (5j+1) mod k, vout j, extended fields by j mod 4", "outputs": "value alphabet cycled, core script (7j+2) mod k"}), c[1] == 0);
        }));
    }
    v
}

/// compact description of a sorted list of integers as inclusive ranges
fn ranges_of(v: &[usize]) -> Vec<String> {
    let mut out = vec![];
    let mut i = 0;
    while i < v.len() {
        let mut j = i;
        while j + 1 < v.len() && v[j + 1] == v[j] + 1 {
            j += 1;
        }
        out.push(if i == j { v[i].to_string() } else { format!("{}..={}", v[i], v[j]) });
        i = j + 1;
    }
    out
}

fn run(ctx: &Ctx) -> Report {
    let mut r = Report::new(
        "differential round trip on freshly built objects, full products: (1) all 256 one-byte scripts the parser accepts, in script_sig + locking_script + script_pub_key; (2) every script form of the full alphabet x {script_sig, locking_script, script_pub_key, coinbase blob of the same bytes}; (3) one input: (ordinary x core script | coinbase x blob) x (no extended field | satoshis v | locking script l | both v x l); (4) output value x core script; (5) input txid x vout x sequence x ext, built by the library's own parser from reference wire bytes (coinbase outpoint included); (6) version x locktime; (7) every tuple of 0..=3 inputs x every tuple of 0..=3 outputs over the shape alphabets x headers; (8) conditionals nested to EVERY depth of the listed range x {innermost OP_1 | empty ELSE on every level | innermost OP_PUSHDATA1 tuple | nested through the ELSE branch} x {script_sig, extended locking script, output script}; (9) a push payload of EVERY length of the listed range x {script_sig, locking script, output script as the smallest push form; script_sig as OP_PUSHDATA2; output script as OP_PUSHDATA4; coinbase blob of that length}; (10) every 2^k-1, 2^k, 2^k+1 below 2^64 as input satoshis / output value / both; (11) every n_inputs x n_outputs of the listed counts. Every case: 4 encode/decode entry-point pairs for the Transaction and for each TxIn on its own (in (7) the inputs-alone leg runs once per input tuple), compared by PartialEq, structural accessor diff, wire bytes, txid (library + reference) and extended accessors. Non-trivial = at least one decode returned an object that was compared; cases are distinct by construction of the products.",
    );
    let a = script_alphabet(ctx.tier);
    let (ins, outs) = shape_alphabets(ctx.tier, &a);
    r.bounds = json!({
        "values": values(ctx.tier),
        "u32_alphabet": U32S,
        "core_scripts": a.core.iter().map(|s| s.name.clone()).collect::<Vec<_>>(),
        "full_scripts": a.full.iter().map(|s| s.name.clone()).collect::<Vec<_>>(),
        "scripts_refused_by_parser_and_left_out": a.dropped,
        "coinbase_blobs": coinbase_alphabet(ctx.tier).iter().map(|c| json!({"name": c.0, "hex": hx(&c.1)})).collect::<Vec<_>>(),
        "shape_inputs": ins.iter().map(|i| i.name.clone()).collect::<Vec<_>>(),
        "shape_outputs": outs.iter().map(|o| o.name.clone()).collect::<Vec<_>>(),
        "max_inputs": 3, "max_outputs": 3,
        "if_depths": ranges_of(&depths(ctx.tier)), "if_depth_forms": DEPTH_INNER, "if_depth_positions": DEPTH_POS,
        "push_payload_lengths": ranges_of(&push_lengths(ctx.tier)), "push_carriers": PUSH_CARRIERS,
        "satoshi_sweep": satoshi_sweep(ctx.tier), "satoshi_places": SAT_PLACES,
        "n_inputs_and_n_outputs": ranges_of(&counts(ctx.tier)),
        "recursion_refusal_key_buckets": {"json": format!("nesting>={0} | nesting<{0}", JSON_REFUSED_NESTING), "cbor": format!("nesting>={0} | nesting<{0}", CBOR_REFUSED_NESTING)},
        "deviation_bound": 0
    });
    r.assumptions.push("objects are built with Transaction::new/add_input/add_output, TxIn::new/set_satoshis/set_locking_script, Script::from_bytes / from_coinbase_bytes (two entries with Script::from_script_bits for an empty direct push) and are never signed, so the serde-skipped hash cache is empty on both sides of the PartialEq".into());
    r.assumptions.push("coinbase inputs carry the ScriptBit::Coinbase blob the library's own wire parser produces for the outpoint (zero txid, vout 0xffffffff); a parsed script placed by hand on a coinbase outpoint is not in the space".into());
    r.assumptions.push("no independent encoder: nothing is asserted about the JSON/CBOR layout itself except that 64-bit fields emitted as JSON numbers read back exactly with serde_json::Value (a field emitted in another shape is only counted in info)".into());
    r.assumptions.push("a decoder that refuses an encoding produced by the library's own encoder (e.g. nesting-depth limits of serde_json / ciborium) is reported as decode-error: the statement quantifies over every transaction, including nested conditionals".into());
    r.assumptions.push("the key of a recursion-limit refusal carries the input class: the number of nested containers the object needs in the library's serde layout (Transaction 2 + TxIn/TxOut 1 + script 1 + 2 per conditional level + 1 for an OP_PUSHDATAn tuple), bucketed at the first level the parsers' default limits refuse on the unchanged library (serde_json: 128th, ciborium: 257th); a refusal below that level is a different key".into());
    run_spaces_for("C18", ctx, &mut r, spaces(ctx.tier));
    r
}

fn replay(case: &Value) -> Vec<(String, String)> {
    replay_spaces_for("C18", spaces, case)
}
