//! C04 — sighash depends only on current transaction contents, never on call
//! history. Explicit-state search (stateright BFS) over the REAL Transaction
//! object; the reachable graph is finite (at most 3 inputs / 3 outputs, small
//! operand alphabets), so the search runs to a fixpoint and covers histories
//! of any length over the alphabet.
use super::Prop;
use crate::engine::{guard, panic_site, Ctx, Report, Tier};
use bsv::{PrivateKey, Script, SigHash, Transaction, TxIn, TxOut};
use serde::{Deserialize, Serialize};
use serde_json::{json, Value};
use stateright::{Checker, Model, Property};
use std::collections::{BTreeMap, BTreeSet};
use std::hash::{Hash, Hasher};
use std::sync::atomic::{AtomicU64, Ordering};
use std::sync::Mutex;

pub const PROP: Prop = Prop {
    run,
    replay,
    spaces: None,
    level_note: "trusted base: stateright 0.31 BFS; differential oracle = the same call on Transaction::from_bytes(to_bytes()) (no hand-written expected value); canonical state = serialisation + the three cache slots (hook verif_hash_cache) — sound because every observable of the API is a function of contents and slots; operand alphabets are 2 inputs / 2 outputs / 2 versions / 2 locktimes (3 in thorough)",
};

#[derive(Clone, Debug, PartialEq, Eq, Hash, Serialize, Deserialize)]
pub enum Act {
    AddIn(u8),
    PrependIn(u8),
    InsertIn(usize, u8),
    SetIn(usize, u8),
    AddOut(u8),
    PrependOut(u8),
    InsertOut(usize, u8),
    SetOut(usize, u8),
    /// bool: continue on the returned clone instead of self
    SetVersion(u32, bool),
    SetLocktime(u32, bool),
    CloneAndContinue,
    Preimage(u8, usize),
    Sign(u8, usize),
    /// the plural adders: two operands in one call
    AddIns(u8, u8),
    AddOuts(u8, u8),
    /// the plural adders handed a vector of one element (reaches the size bound from one below it)
    AddIns1(u8),
    AddOuts1(u8),
    /// overwrite ANOTHER live object with the current one through Clone::clone_from and continue on that object:
    /// 0 = a freshly created empty transaction, 1 = a different transaction whose three cache slots are filled
    CloneInto(u8),
    /// replace the (still empty) object by one obtained through another constructor: 0 = parsed from a non-canonical
    /// wire encoding, 1 = JSON round trip, 2 = compact (CBOR) round trip, 3 = from_hex
    Load(u8),
}

/// Input operands: 0 and 1 differ in everything; 2 = operand 0 with another sequence only; 3 = another vout only (same txid);
/// 4 = another unlocking script only; 5 = another sequence AND another unlocking script (same outpoint).
fn operand_in(k: u8) -> TxIn {
    let (t, v, q, sc) = match k {
        0 => (0u8, 0u8, 0u8, 0u8),
        1 => (1, 1, 1, 1),
        2 => (0, 0, 1, 0),
        3 => (0, 1, 0, 0),
        4 => (0, 0, 0, 2),
        5 => (0, 0, 1, 3),
        n => (n, n, n, n),
    };
    let mut txid = [0u8; 32];
    for (i, b) in txid.iter_mut().enumerate() {
        *b = (i as u8).wrapping_mul(5).wrapping_add(t.wrapping_mul(37)).wrapping_add(1);
    }
    let mut i = TxIn::new(&txid, 0x0100 + v as u32, &Script::from_bytes(&[0x51 + sc]).unwrap(), Some(0x01020300 + q as u32));
    if k == 1 || k == 3 {
        // extended annotations are not part of the serialisation: they must never influence a sighash
        i.set_satoshis(0x7777);
        i.set_locking_script(&Script::from_bytes(&[0x52, 0x53]).unwrap());
    }
    i
}

/// Output operands: 0 and 1 differ in everything; 2 = operand 0 with another value; 3 = operand 0 with another script.
fn operand_out(k: u8) -> TxOut {
    let (val, scr) = match k {
        0 => (0u8, 0u8),
        1 => (1, 1),
        2 => (1, 0),
        3 => (0, 1),
        n => (n, n),
    };
    TxOut::new(0x0a0b0c00 + val as u64, &Script::from_bytes(&[0x76, 0xa9, 0x01, scr, 0x88, 0xac]).unwrap())
}

fn subscript() -> Script {
    Script::from_bytes(&[0x76, 0xa9, 0x14, 1, 2, 3, 4, 5, 6, 7, 8, 9, 10, 11, 12, 13, 14, 15, 16, 17, 18, 19, 20, 0x88, 0xac]).unwrap()
}

const VALUE: u64 = 0x1122334455;
const OBS_FLAGS: [u8; 8] = [0x41, 0x42, 0xc1, 0x43, 0xc3, 0xc2, 0x01, 0x03];

fn key() -> PrivateKey {
    PrivateKey::from_hex("c0ffee254729296a45a3885639ac7e10f9d54979a0f5b2d1e8b1c4a7d3f6e5b9").unwrap()
}

#[derive(Clone, Debug)]
pub struct St {
    pub tx: Transaction,
    pub fp: Vec<u8>,
    /// root-cause key of a differential failure observed on the transition into this state
    pub verdict: Option<String>,
}

impl PartialEq for St {
    fn eq(&self, o: &St) -> bool {
        self.fp == o.fp && self.verdict == o.verdict
    }
}
impl Eq for St {}
impl Hash for St {
    fn hash<H: Hasher>(&self, h: &mut H) {
        self.fp.hash(h);
        self.verdict.hash(h);
    }
}

fn fingerprint(tx: &Transaction) -> Vec<u8> {
    let mut fp = tx.to_bytes().unwrap_or_default();
    // Everything else the object carries: the derived Debug text names every field, also ones this harness has never
    // heard of (a further memo next to the three slots, a cached id). Two objects with equal bytes and equal slots but a
    // different hidden field are different states: merging them would lose exactly the histories in which that field
    // goes stale (observe, then mutate through a setter that forgets it, then observe again).
    fp.extend_from_slice(format!("{:?}", tx).as_bytes());
    for (i, slot) in tx.verif_hash_cache().iter().enumerate() {
        fp.push(0xf0 + i as u8);
        match slot {
            None => fp.push(0),
            Some(h) => {
                fp.push(1);
                fp.extend_from_slice(h);
            }
        }
    }
    fp
}

fn fresh(tx: &Transaction) -> Result<Transaction, String> {
    Transaction::from_bytes(&tx.to_bytes().map_err(|e| e.to_string())?).map_err(|e| e.to_string())
}

const SLOT_NAMES: [&str; 3] = ["hashPrevouts", "hashSequence", "hashOutputs"];

/// Slot invariant: every filled slot equals the one a freshly parsed copy computes.
fn stale_slot(tx: &Transaction) -> Option<String> {
    let have = tx.verif_hash_cache();
    if have.iter().all(|s| s.is_none()) {
        return None;
    }
    let mut f = fresh(tx).ok()?;
    if f.get_ninputs() == 0 {
        // no input to sign: fill the slots through the public hash_inputs path only
        let _ = f.hash_inputs(SigHash::InputsOutputs);
    } else {
        let _ = f.sighash_preimage(SigHash::InputsOutputs, 0, &subscript(), VALUE);
    }
    let want = f.verif_hash_cache();
    for i in 0..3 {
        if let (Some(h), Some(w)) = (&have[i], &want[i]) {
            if h != w {
                return Some(SLOT_NAMES[i].to_string());
            }
        }
    }
    None
}

fn act_kind(a: &Act) -> &'static str {
    match a {
        Act::AddIn(_) => "add_input",
        Act::PrependIn(_) => "prepend_input",
        Act::InsertIn(..) => "insert_input",
        Act::SetIn(..) => "set_input",
        Act::AddOut(_) => "add_output",
        Act::PrependOut(_) => "prepend_output",
        Act::InsertOut(..) => "insert_output",
        Act::SetOut(..) => "set_output",
        Act::SetVersion(..) => "set_version",
        Act::SetLocktime(..) => "set_nlocktime",
        Act::CloneAndContinue => "clone",
        Act::Preimage(..) => "sighash_preimage",
        Act::Sign(..) => "sign",
        Act::Load(_) => "load",
        Act::AddIns(..) => "add_inputs",
        Act::AddOuts(..) => "add_outputs",
        Act::AddIns1(..) => "add_inputs",
        Act::AddOuts1(..) => "add_outputs",
        Act::CloneInto(..) => "clone_from",
    }
}

/// A wire encoding the parser accepts but would not produce: the unlocking-script length as a 3-byte compact size and an
/// OP_RETURN output whose trailing push declares more bytes than remain (tolerated after OP_RETURN).
fn noncanonical_bytes() -> Vec<u8> {
    let mut one_in = Transaction::new(1, 1);
    one_in.add_input(&operand_in(0));
    let c = one_in.to_bytes().unwrap_or_default(); // version(4) count(1) outpoint(36) len(1) script(1) sequence(4) n_out(1) locktime(4)
    let mut b = c[..41].to_vec();
    b.extend_from_slice(&[0xfd, 0x01, 0x00]);
    b.extend_from_slice(&c[42..47]);
    b.push(1);
    b.extend_from_slice(&0x0a0b0c00u64.to_le_bytes());
    let script = [0x00u8, 0x6a, 0x48, 0x45, 0x4c, 0x4c, 0x4f];
    b.push(script.len() as u8);
    b.extend_from_slice(&script);
    b.extend_from_slice(&c[48..52]);
    b
}

fn loaded(k: u8) -> Option<Transaction> {
    let mut base = Transaction::new(1, 1);
    base.add_input(&operand_in(1));
    base.add_output(&operand_out(0));
    match k {
        0 => Transaction::from_bytes(&noncanonical_bytes()).ok(),
        1 => Transaction::from_json_string(&base.to_json_string().ok()?).ok(),
        2 => Transaction::from_compact_bytes(&base.to_compact_bytes().ok()?).ok(),
        _ => Transaction::from_hex(&base.to_hex().ok()?).ok(),
    }
}

/// Apply one action to the real object. Returns the differential verdict of observer actions.
fn apply(tx: &mut Transaction, a: &Act) -> Option<String> {
    match a {
        Act::AddIn(k) => tx.add_input(&operand_in(*k)),
        Act::PrependIn(k) => tx.prepend_input(&operand_in(*k)),
        Act::InsertIn(i, k) => tx.insert_input(*i, &operand_in(*k)),
        Act::SetIn(i, k) => tx.set_input(*i, &operand_in(*k)),
        Act::AddOut(k) => tx.add_output(&operand_out(*k)),
        Act::PrependOut(k) => tx.prepend_output(&operand_out(*k)),
        Act::InsertOut(i, k) => tx.insert_output(*i, &operand_out(*k)),
        Act::SetOut(i, k) => tx.set_output(*i, &operand_out(*k)),
        Act::SetVersion(v, on_clone) => {
            let c = tx.set_version(*v);
            if *on_clone {
                *tx = c;
            }
        }
        Act::SetLocktime(v, on_clone) => {
            let c = tx.set_nlocktime(*v);
            if *on_clone {
                *tx = c;
            }
        }
        Act::CloneAndContinue => {
            let c = tx.clone();
            *tx = c;
        }
        Act::AddIns(a, b) => tx.add_inputs(vec![operand_in(*a), operand_in(*b)]),
        Act::AddOuts(a, b) => tx.add_outputs(vec![operand_out(*a), operand_out(*b)]),
        Act::AddIns1(a) => tx.add_inputs(vec![operand_in(*a)]),
        Act::AddOuts1(a) => tx.add_outputs(vec![operand_out(*a)]),
        Act::CloneInto(k) => {
            let mut dest = Transaction::new(9, 9);
            if *k == 1 {
                dest.add_input(&operand_in(1));
                dest.add_output(&operand_out(1));
                let _ = dest.sighash_preimage(SigHash::InputsOutputs, 0, &subscript(), VALUE);
            }
            dest.clone_from(tx);
            *tx = dest;
        }
        Act::Load(k) => {
            // which encodings a constructor accepts is not C04's subject (C01/C02/C18): a refused load leaves the object as it
            // was - the action is then a self-loop of the graph, not a verdict
            if let Some(t) = loaded(*k) {
                *tx = t;
            }
        }
        Act::Preimage(flag, idx) => {
            let sh = SigHash::try_from(*flag).ok()?;
            let got = tx.sighash_preimage(sh, *idx, &subscript(), VALUE).map_err(|e| e.to_string());
            let want = fresh(tx).and_then(|mut f| f.sighash_preimage(sh, *idx, &subscript(), VALUE).map_err(|e| e.to_string()));
            if got.is_ok() != want.is_ok() || (got.is_ok() && got != want) {
                return Some(format!("C04/observer=sighash_preimage/flag=0x{:02x}/kind=differs-from-fresh-copy", flag));
            }
        }
        Act::Sign(flag, idx) => {
            let sh = SigHash::try_from(*flag).ok()?;
            let got = tx.sign(&key(), sh, *idx, &subscript(), VALUE).and_then(|s| s.to_bytes()).map_err(|e| e.to_string());
            let want = fresh(tx).and_then(|mut f| f.sign(&key(), sh, *idx, &subscript(), VALUE).and_then(|s| s.to_bytes()).map_err(|e| e.to_string()));
            if got.is_ok() != want.is_ok() || (got.is_ok() && got != want) {
                return Some(format!("C04/observer=sign/flag=0x{:02x}/kind=differs-from-fresh-copy", flag));
            }
        }
    }
    None
}

pub struct TxModel {
    pub max_in: usize,
    pub max_out: usize,
    pub operands_in: u8,
    pub operands_out: u8,
    pub ints: Vec<u32>,
    pub suppressed: BTreeSet<String>,
    pub observer_transitions: AtomicU64,
    pub seen_keys: Mutex<BTreeMap<String, u64>>,
}

impl TxModel {
    fn step(&self, last: &St, a: &Act) -> St {
        let mut tx = last.tx.clone();
        let res = guard(|| {
            let v = apply(&mut tx, a);
            (tx, v)
        });
        let (tx, mut verdict) = match res {
            Ok(r) => r,
            Err(p) => (last.tx.clone(), Some(format!("C04/action={}/kind=panic@{}", act_kind(a), panic_site(&p)))),
        };
        if matches!(a, Act::Preimage(..) | Act::Sign(..)) {
            self.observer_transitions.fetch_add(1, Ordering::Relaxed);
        }
        if verdict.is_none() {
            if let Some(slot) = stale_slot(&tx) {
                verdict = Some(format!("C04/slot={}/after={}/kind=stale-cache", slot, act_kind(a)));
            }
        }
        if let Some(k) = &verdict {
            *self.seen_keys.lock().unwrap().entry(k.clone()).or_insert(0) += 1;
        }
        let fp = fingerprint(&tx);
        St { tx, fp, verdict }
    }
}

impl Model for TxModel {
    type State = St;
    type Action = Act;

    fn init_states(&self) -> Vec<St> {
        let tx = Transaction::new(self.ints[0], self.ints[0]);
        let fp = fingerprint(&tx);
        vec![St { tx, fp, verdict: None }]
    }

    fn actions(&self, s: &St, out: &mut Vec<Act>) {
        // a state carrying a verdict is terminal: its successors could be contaminated
        if s.verdict.is_some() {
            return;
        }
        let (ni, no) = (s.tx.get_ninputs(), s.tx.get_noutputs());
        if ni == 0 && no == 0 {
            for k in 0..4 {
                out.push(Act::Load(k));
            }
        }
        // ordered simplest-first
        if ni < self.max_in {
            for k in 0..self.operands_in {
                out.push(Act::AddIn(k));
            }
        }
        if no < self.max_out {
            for k in 0..self.operands_out {
                out.push(Act::AddOut(k));
            }
        }
        // plural adders: one element per call over every operand, two elements per call over the first three operand kinds
        if ni < self.max_in {
            for k in 0..self.operands_in {
                out.push(Act::AddIns1(k));
            }
        }
        if no < self.max_out {
            for k in 0..self.operands_out {
                out.push(Act::AddOuts1(k));
            }
        }
        if ni + 2 <= self.max_in {
            for a in 0..3u8.min(self.operands_in) {
                for b in 0..3u8.min(self.operands_in) {
                    out.push(Act::AddIns(a, b));
                }
            }
        }
        if no + 2 <= self.max_out {
            for a in 0..3u8.min(self.operands_out) {
                for b in 0..3u8.min(self.operands_out) {
                    out.push(Act::AddOuts(a, b));
                }
            }
        }
        if ni > 0 {
            for flag in OBS_FLAGS {
                for idx in [0, ni - 1] {
                    out.push(Act::Preimage(flag, idx));
                    if idx == ni - 1 {
                        break;
                    }
                }
            }
            for flag in [0x41u8, 0xc3, 0x01] {
                out.push(Act::Sign(flag, ni - 1));
            }
        }
        for i in 0..ni {
            for k in 0..self.operands_in {
                out.push(Act::SetIn(i, k));
            }
        }
        for i in 0..no {
            for k in 0..self.operands_out {
                out.push(Act::SetOut(i, k));
            }
        }
        if ni < self.max_in {
            for k in 0..self.operands_in {
                out.push(Act::PrependIn(k));
                for i in 0..=ni {
                    out.push(Act::InsertIn(i, k));
                }
            }
        }
        if no < self.max_out {
            for k in 0..self.operands_out {
                out.push(Act::PrependOut(k));
                for i in 0..=no {
                    out.push(Act::InsertOut(i, k));
                }
            }
        }
        for v in &self.ints {
            for c in [false, true] {
                out.push(Act::SetVersion(*v, c));
                out.push(Act::SetLocktime(*v, c));
            }
        }
        out.push(Act::CloneAndContinue);
        out.push(Act::CloneInto(0));
        out.push(Act::CloneInto(1));
    }

    fn next_state(&self, last: &St, a: Act) -> Option<St> {
        Some(self.step(last, &a))
    }

    fn properties(&self) -> Vec<Property<Self>> {
        vec![
            Property::always("filled cache slots equal those of a freshly parsed copy", |m: &TxModel, s: &St| match &s.verdict {
                Some(k) if k.contains("/slot=") => m.suppressed.contains(k),
                _ => true,
            }),
            Property::always("sighash/sign results equal those on a freshly parsed copy", |m: &TxModel, s: &St| match &s.verdict {
                Some(k) if k.contains("/observer=") => m.suppressed.contains(k),
                _ => true,
            }),
            Property::always("no panic", |m: &TxModel, s: &St| match &s.verdict {
                Some(k) if k.contains("kind=panic") => m.suppressed.contains(k),
                _ => true,
            }),
        ]
    }
}

/// (name, max inputs, max outputs, input operands, output operands)
type Cfg = (&'static str, usize, usize, u8, u8);

/// Quick: one graph, at most 2 inputs and 2 outputs over all six operand kinds. Thorough: that graph, a 3 x 3 graph over three operands per side, and two deeper ones —
/// at most 3 inputs over all six input operands with at most one output, and the mirror image. The input-side slots
/// (hashPrevouts, hashSequence) and the output-side slot (hashOutputs) are filled and invalidated by disjoint sets of
/// actions, which is why the deep side is crossed with a shallow other side instead of the full 3 x 3 product (that
/// product has several million states and did not finish in 200 CPU-minutes).
fn configs(tier: Tier) -> Vec<Cfg> {
    if tier.is_thorough() {
        vec![("2x2", 2, 2, 6, 6), ("3-inputs", 3, 1, 6, 2), ("3-outputs", 1, 3, 2, 6), ("3x3-three-operands", 3, 3, 3, 3)]
    } else {
        vec![("2x2", 2, 2, 6, 6)]
    }
}

fn model(tier: Tier, suppressed: BTreeSet<String>, cfg: Cfg) -> TxModel {
    TxModel {
        max_in: cfg.1,
        max_out: cfg.2,
        operands_in: cfg.3,
        operands_out: cfg.4,
        ints: if tier.is_thorough() { vec![1, 2, 0x01020304] } else { vec![1, 2] },
        suppressed,
        observer_transitions: AtomicU64::new(0),
        seen_keys: Mutex::new(BTreeMap::new()),
    }
}

struct RunStats {
    unique: usize,
    generated: usize,
    depth: usize,
    observers: u64,
    keys: BTreeMap<String, u64>,
    discoveries: Vec<(String, Vec<Act>)>,
}

fn run_once(ctx: &Ctx, suppressed: BTreeSet<String>, cfg: Cfg) -> RunStats {
    let m = model(ctx.tier, suppressed, cfg);
    let checker = m.checker().threads(ctx.threads).spawn_bfs().join();
    let mut discoveries = vec![];
    for (_name, path) in checker.discoveries() {
        let key = path.last_state().verdict.clone().unwrap_or_default();
        discoveries.push((key, path.into_actions()));
    }
    let model = checker.model();
    let keys = model.seen_keys.lock().unwrap().clone();
    RunStats {
        unique: checker.unique_state_count(),
        generated: checker.state_count(),
        depth: checker.max_depth(),
        observers: model.observer_transitions.load(Ordering::Relaxed),
        keys,
        discoveries,
    }
}

fn run(ctx: &Ctx) -> Report {
    let mut r = Report::new(
        "explicit-state BFS (stateright) from Transaction::new over the action alphabet {add,prepend,insert(i),set(i)} x {input,output} x operands, set_version/set_nlocktime (on self and on the returned clone), clone, and observers sighash_preimage/sign for one flag of every cache-filling class at the first and last input; actions beyond the input/output bound are disabled so the graph is finite and searched to a fixpoint. State = real object; canonical fingerprint = serialisation + cache slots. Invariant in every state: filled slots equal a fresh copy's; on every observer transition: result equals the fresh copy's. Non-trivial = every unique state (each carries a real Transaction whose slots were checked).",
    );
    // known findings are passed in through the suppressed set so the search continues past them
    let known = crate::findings::load(&std::env::var("VERIF_FINDINGS").unwrap_or_else(|_| "/verif/known_findings.json".into())).unwrap_or_default();
    let mut suppressed: BTreeSet<String> = known.iter().filter(|f| f.property == "C04" && f.status == "open").map(|f| f.key.clone()).collect();
    let mut all_keys: BTreeMap<String, (u64, Option<Vec<Act>>)> = BTreeMap::new();
    let mut total = RunStats { unique: 0, generated: 0, depth: 0, observers: 0, keys: BTreeMap::new(), discoveries: vec![] };
    let mut second_total = 0usize;
    for cfg in configs(ctx.tier) {
        let mut stats = run_once(ctx, suppressed.clone(), cfg);
        // iterate: every discovered key gets its own shortest path; then it is suppressed and the search repeated
        for _round in 0..12 {
            for (k, n) in &stats.keys {
                all_keys.entry(k.clone()).or_insert((*n, None)).0 = *n;
            }
            if stats.discoveries.is_empty() {
                break;
            }
            for (k, acts) in &stats.discoveries {
                let acts = &minimise(k, acts.clone());
                all_keys.entry(k.clone()).or_insert((1, None)).1 = Some(acts.clone());
                suppressed.insert(k.clone());
            }
            stats = run_once(ctx, suppressed.clone(), cfg);
        }
        // second complete run: parallel BFS must report the same unique-state count
        let again = run_once(ctx, suppressed.clone(), cfg);
        if again.unique != stats.unique {
            crate::out::line(&format!("MACHINERY-ERROR: two complete searches of graph {} disagree on the number of unique states ({} vs {})", cfg.0, stats.unique, again.unique));
            std::process::exit(2);
        }
        r.spaces.push(json!({"space": format!("reachable-graph/{}", cfg.0), "max_inputs": cfg.1, "max_outputs": cfg.2, "input_operands": cfg.3, "output_operands": cfg.4, "unique_states": stats.unique, "generated_states": stats.generated, "max_depth": stats.depth, "complete": true}));
        total.unique += stats.unique;
        total.generated += stats.generated;
        total.depth = total.depth.max(stats.depth);
        total.observers += stats.observers;
        second_total += again.unique;
    }
    let stats = total;
    for (k, (n, acts)) in &all_keys {
        let case = json!({"actions": acts, "tier": ctx.tier.name()});
        r.acc.violate(k.clone(), 0, case, format!("{} transitions end in this verdict; shortest history: {:?}", n, acts));
        r.acc.violations.get_mut(k).unwrap().0 = *n;
    }
    r.acc.evaluations = stats.generated as u64;
    r.acc.transitions = stats.generated as u64;
    r.acc.traces = stats.observers;
    r.acc.states_structural = stats.unique as u64;
    r.acc.nontrivial_structural = stats.unique as u64;
    r.acc.outcome(b"state");
    r.acc.outcome(&(stats.unique as u64).to_le_bytes());
    r.acc.bump("max_depth", stats.depth as u64);
    r.acc.bump("observer_transitions_compared_with_fresh_copy", stats.observers);
    r.acc.bump("unique_states_second_run", second_total as u64);
    r.acc.sample(0, || json!({"history": [Act::AddIn(0), Act::AddOut(1), Act::Preimage(0x41, 0), Act::SetOut(0, 0), Act::Preimage(0x41, 0)], "note": "example of an explored history: fill all cache slots, replace an output, observe again"}));
    r.bounds = json!({"graphs": configs(ctx.tier).iter().map(|c| format!("{}: <= {} inputs over {} operands, <= {} outputs over {} operands", c.0, c.1, c.3, c.2, c.4)).collect::<Vec<_>>(), "operands": "6 inputs (two unrelated; four that differ from operand 0 in sequence only / vout only / unlocking script only / sequence and script) and 6 outputs (two unrelated, one differing only in value, one only in script, two more unrelated)", "alternative_constructors": "from the empty object: parsed from a non-canonical wire encoding, JSON round trip, compact round trip, from_hex", "observer_flags": OBS_FLAGS.iter().map(|f| format!("0x{:02x}", f)).collect::<Vec<_>>(), "search": "fixpoint (all reachable states)", "history_length": "unbounded within the finite graph"});
    r
}

/// Parallel BFS does not return shortest paths: drop actions greedily while the verdict key is preserved.
fn minimise(key: &str, mut acts: Vec<Act>) -> Vec<Act> {
    let mut i = 0;
    while i < acts.len() {
        let mut t = acts.clone();
        t.remove(i);
        let ok = guard(|| replay_actions(&t)).map(|r| r.iter().any(|(k, _)| k == key)).unwrap_or(false);
        if ok {
            acts = t;
        } else {
            i += 1;
        }
    }
    acts
}

pub fn replay_actions(acts: &[Act]) -> Vec<(String, String)> {
    let m = model(Tier::Thorough, BTreeSet::new(), ("replay", 3, 3, 6, 6));
    let mut s = m.init_states().remove(0);
    for (i, a) in acts.iter().enumerate() {
        s = m.step(&s, a);
        if let Some(k) = &s.verdict {
            return vec![(k.clone(), format!("after action {} ({:?})", i, a))];
        }
    }
    vec![]
}

fn replay(case: &Value) -> Vec<(String, String)> {
    let acts: Vec<Act> = match serde_json::from_value(case.get("actions").cloned().unwrap_or(Value::Null)) {
        Ok(a) => a,
        Err(e) => return vec![("machinery/replay-bad-actions".into(), e.to_string())],
    };
    replay_actions(&acts)
}
