//! E1: bounded-exhaustive enumerator. Walks an index space completely, sharded
//! over worker threads, evaluates every case on the real code and merges the
//! per-thread accumulators deterministically.

use serde_json::{json, Value};
use std::collections::{BTreeMap, HashSet};
use std::panic::{catch_unwind, AssertUnwindSafe};
use std::sync::atomic::{AtomicBool, AtomicU64, Ordering};
use std::time::{Duration, Instant};

#[derive(Clone, Copy, PartialEq, Eq, Debug)]
pub enum Tier {
    Quick,
    Thorough,
}

impl Tier {
    pub fn name(self) -> &'static str {
        match self {
            Tier::Quick => "quick",
            Tier::Thorough => "thorough",
        }
    }
    pub fn is_thorough(self) -> bool {
        self == Tier::Thorough
    }
}

pub struct Ctx {
    pub tier: Tier,
    pub seed: u64,
    pub threads: usize,
    pub start: Instant,
    pub wall_cap: Duration,
    pub capped: AtomicBool,
}

impl Ctx {
    pub fn new(tier: Tier, seed: u64) -> Ctx {
        let threads = std::env::var("VERIF_THREADS").ok().and_then(|s| s.parse().ok()).unwrap_or_else(|| std::thread::available_parallelism().map(|n| n.get()).unwrap_or(4));
        let cap_s: u64 = std::env::var("VERIF_WALL_CAP_S").ok().and_then(|s| s.parse().ok()).unwrap_or(match tier {
            Tier::Quick => 150,
            Tier::Thorough => 2400,
        });
        Ctx {
            tier,
            seed,
            threads,
            start: Instant::now(),
            wall_cap: Duration::from_secs(cap_s),
            capped: AtomicBool::new(false),
        }
    }
    pub fn over_cap(&self) -> bool {
        if self.capped.load(Ordering::Relaxed) {
            return true;
        }
        if self.start.elapsed() > self.wall_cap {
            self.capped.store(true, Ordering::Relaxed);
            return true;
        }
        false
    }
}

#[derive(Clone, Debug)]
pub struct Violation {
    /// root-cause key: names entry point / opcode arm and kind of divergence
    pub key: String,
    /// order in which the case was enumerated (simplest first)
    pub order: u64,
    /// replayable case
    pub case: Value,
    pub detail: String,
}

pub const KEEP_PER_KEY: usize = 3;

#[derive(Default)]
pub struct Acc {
    pub evaluations: u64,
    pub transitions: u64,
    pub traces: u64,
    /// structurally distinct non-trivial cases (space is distinct by construction)
    pub nontrivial_structural: u64,
    /// digests of non-trivial cases when distinctness is not structural
    pub nontrivial: HashSet<u64>,
    /// structurally distinct states
    pub states_structural: u64,
    pub states: HashSet<u64>,
    pub outcomes: HashSet<u64>,
    pub violations: BTreeMap<String, (u64, Vec<Violation>)>,
    pub samples: Vec<(u64, Value)>,
    pub info: BTreeMap<String, u64>,
}

pub const MAX_SAMPLES: usize = 6;

impl Acc {
    pub fn new() -> Acc {
        Acc::default()
    }
    pub fn violate(&mut self, key: impl Into<String>, order: u64, case: Value, detail: impl Into<String>) {
        let key = key.into();
        let e = self.violations.entry(key.clone()).or_insert((0, Vec::new()));
        e.0 += 1;
        let v = Violation { key, order, case, detail: detail.into() };
        e.1.push(v);
        e.1.sort_by_key(|v| v.order);
        e.1.truncate(KEEP_PER_KEY);
    }
    pub fn sample(&mut self, order: u64, mk: impl FnOnce() -> Value) {
        if self.samples.len() < MAX_SAMPLES || self.samples.last().map(|s| s.0 > order).unwrap_or(false) {
            self.samples.push((order, mk()));
            self.samples.sort_by_key(|s| s.0);
            self.samples.truncate(MAX_SAMPLES);
        }
    }
    pub fn bump(&mut self, k: &str, n: u64) {
        *self.info.entry(k.to_string()).or_insert(0) += n;
    }
    pub fn outcome(&mut self, bytes: &[u8]) {
        self.outcomes.insert(fnv64(bytes));
    }
    pub fn state(&mut self, bytes: &[u8]) {
        self.states.insert(fnv64(bytes));
    }
    pub fn nontrivial_case(&mut self, bytes: &[u8]) {
        self.nontrivial.insert(fnv64(bytes));
    }
    pub fn merge(&mut self, o: Acc) {
        self.evaluations += o.evaluations;
        self.transitions += o.transitions;
        self.traces += o.traces;
        self.nontrivial_structural += o.nontrivial_structural;
        self.states_structural += o.states_structural;
        self.nontrivial.extend(o.nontrivial);
        self.states.extend(o.states);
        self.outcomes.extend(o.outcomes);
        for (k, (n, vs)) in o.violations {
            let e = self.violations.entry(k).or_insert((0, Vec::new()));
            e.0 += n;
            e.1.extend(vs);
            e.1.sort_by_key(|v| v.order);
            e.1.truncate(KEEP_PER_KEY);
        }
        self.samples.extend(o.samples);
        self.samples.sort_by_key(|s| s.0);
        self.samples.truncate(MAX_SAMPLES);
        for (k, n) in o.info {
            *self.info.entry(k).or_insert(0) += n;
        }
    }
    pub fn n_nontrivial(&self) -> u64 {
        self.nontrivial_structural + self.nontrivial.len() as u64
    }
    pub fn n_states(&self) -> u64 {
        self.states_structural + self.states.len() as u64
    }
}

pub fn fnv64(bytes: &[u8]) -> u64 {
    let mut h: u64 = 0xcbf29ce484222325;
    for b in bytes {
        h ^= *b as u64;
        h = h.wrapping_mul(0x100000001b3);
    }
    h
}

/// Walk 0..n completely (unless the wall cap trips), in parallel. Returns the
/// merged accumulator and the number of indices actually evaluated.
pub fn par_range<F>(ctx: &Ctx, n: u64, f: F) -> (Acc, u64)
where
    F: Fn(u64, &mut Acc) + Sync,
{
    let threads = ctx.threads.max(1);
    let chunk = (n / (threads as u64 * 64)).clamp(1, 1 << 16);
    let next = AtomicU64::new(0);
    let done = AtomicU64::new(0);
    let mut accs: Vec<Acc> = Vec::new();
    std::thread::scope(|s| {
        let mut hs = Vec::new();
        for _ in 0..threads {
            hs.push(s.spawn(|| {
                let mut acc = Acc::new();
                loop {
                    if ctx.over_cap() {
                        break;
                    }
                    let lo = next.fetch_add(chunk, Ordering::Relaxed);
                    if lo >= n {
                        break;
                    }
                    let hi = (lo + chunk).min(n);
                    for i in lo..hi {
                        f(i, &mut acc);
                    }
                    done.fetch_add(hi - lo, Ordering::Relaxed);
                }
                acc
            }));
        }
        for h in hs {
            match h.join() {
                Ok(a) => accs.push(a),
                Err(e) => {
                    let msg = e.downcast_ref::<String>().cloned().or_else(|| e.downcast_ref::<&str>().map(|s| s.to_string())).unwrap_or_default();
                    crate::out::line(&format!("MACHINERY-ERROR: worker thread panicked outside a guarded library call: {}", msg));
                    std::process::exit(2);
                }
            }
        }
    });
    let mut total = Acc::new();
    for a in accs {
        total.merge(a);
    }
    (total, done.load(Ordering::Relaxed))
}

/// Run a list of items in parallel (convenience wrapper over par_range).
pub fn par_items<T: Sync, F>(ctx: &Ctx, items: &[T], f: F) -> (Acc, u64)
where
    F: Fn(u64, &T, &mut Acc) + Sync,
{
    par_range(ctx, items.len() as u64, |i, acc| f(i, &items[i as usize], acc))
}

thread_local! {
    static LAST_PANIC: std::cell::RefCell<Option<String>> = std::cell::RefCell::new(None);
}

pub fn install_panic_hook() {
    std::panic::set_hook(Box::new(|info| {
        let loc = info.location().map(|l| format!("{}:{}", l.file(), l.line())).unwrap_or_else(|| "?".into());
        let msg = if let Some(s) = info.payload().downcast_ref::<&str>() {
            s.to_string()
        } else if let Some(s) = info.payload().downcast_ref::<String>() {
            s.clone()
        } else {
            "panic".to_string()
        };
        LAST_PANIC.with(|p| *p.borrow_mut() = Some(format!("{} at {}", msg, loc)));
    }));
}

/// Call into the library; a panic becomes Err(description with source location).
pub fn guard<T>(f: impl FnOnce() -> T) -> Result<T, String> {
    match catch_unwind(AssertUnwindSafe(f)) {
        Ok(v) => Ok(v),
        Err(_) => Err(LAST_PANIC.with(|p| p.borrow_mut().take()).unwrap_or_else(|| "panic".into())),
    }
}

/// "file.rs:line" part of a guard() error, used in root-cause keys so that a
/// panic at a different site is a different key.
pub fn panic_site(desc: &str) -> String {
    match desc.rfind(" at ") {
        Some(i) => {
            let loc = &desc[i + 4..];
            // strip registry paths to the crate-relative tail
            let tail = match loc.rfind("/src/") {
                Some(j) if !loc.starts_with("src/") => {
                    let pre = &loc[..j];
                    let krate = pre.rsplit('/').next().unwrap_or("");
                    format!("{}{}", krate, &loc[j..])
                }
                _ => loc.to_string(),
            };
            // line numbers shift with unrelated edits: keep the file only
            match tail.rfind(':') {
                Some(k) => tail[..k].to_string(),
                None => tail,
            }
        }
        None => "?".into(),
    }
}

thread_local! {
    /// First odometer decoding of the case being evaluated: (index that was decoded, dimension sizes). The history pass
    /// (props::history_pass) reads it to learn which cases differ from the current one in exactly one coordinate.
    static FIRST_COORDS: std::cell::RefCell<Option<(u64, Vec<u64>)>> = std::cell::RefCell::new(None);
}

pub fn take_first_coords() -> Option<(u64, Vec<u64>)> {
    FIRST_COORDS.with(|c| c.borrow_mut().take())
}

/// Odometer over a list of dimension sizes: index -> coordinates.
pub fn coords(mut idx: u64, dims: &[u64]) -> Vec<u64> {
    FIRST_COORDS.with(|c| {
        let mut c = c.borrow_mut();
        if c.is_none() {
            *c = Some((idx, dims.to_vec()));
        }
    });
    let mut out = vec![0u64; dims.len()];
    for (i, d) in dims.iter().enumerate().rev() {
        out[i] = idx % d;
        idx /= d;
    }
    out
}

pub fn product(dims: &[u64]) -> u64 {
    dims.iter().product()
}

pub struct Report {
    pub acc: Acc,
    pub rule: String,
    pub exhaustive: bool,
    pub bounds: Value,
    pub assumptions: Vec<String>,
    pub spaces: Vec<Value>,
}

impl Report {
    pub fn new(rule: &str) -> Report {
        Report {
            acc: Acc::new(),
            rule: rule.to_string(),
            exhaustive: true,
            bounds: json!({}),
            assumptions: vec![],
            spaces: vec![],
        }
    }
    /// Record one completed (or capped) sub-space.
    pub fn add_space(&mut self, name: &str, planned: u64, result: (Acc, u64)) {
        let (acc, done) = result;
        if done < planned {
            self.exhaustive = false;
        }
        self.spaces.push(json!({"space": name, "cases_planned": planned, "cases_done": done, "complete": done >= planned}));
        self.acc.merge(acc);
    }
}
