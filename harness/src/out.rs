//! The library println!s from inside the interpreter. fd 1 is pointed at
//! /dev/null at start-up and the harness reports through a saved descriptor.
use std::io::Write;
use std::os::unix::io::FromRawFd;
use std::sync::Mutex;

static SAVED: Mutex<Option<std::fs::File>> = Mutex::new(None);

pub fn capture_stdout() {
    unsafe {
        let saved = libc::dup(1);
        let devnull = libc::open(b"/dev/null\0".as_ptr() as *const libc::c_char, libc::O_WRONLY);
        if saved >= 0 && devnull >= 0 {
            libc::dup2(devnull, 1);
            libc::close(devnull);
            *SAVED.lock().unwrap() = Some(std::fs::File::from_raw_fd(saved));
        }
    }
}

pub fn line(s: &str) {
    let mut g = SAVED.lock().unwrap();
    match g.as_mut() {
        Some(f) => {
            let _ = writeln!(f, "{}", s);
            let _ = f.flush();
        }
        None => {
            println!("{}", s);
        }
    }
}
