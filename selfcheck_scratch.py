#!/usr/bin/env python3
"""Development-time validation that never touches /repo's working tree: for every seeded change, a scratch git
worktree of /repo (under /tmp) gets the patch, a scratch copy of the harness (under /tmp, its `bsv` dependency
pointed at that worktree, its own target directory) is built, and the harness binary is run for the property the
change breaks. Several slots run in parallel. The authoritative confirmation remains ./selfcheck.py (patch applied to
/repo itself, ./check run from /verif); this tool exists so that checks can be developed while a long run uses /repo.

  ./selfcheck_scratch.py [-j N] [--tier quick|thorough] [--all-props] [name ...]

Results are merged into seeded/RESULTS-<tier>.json (same row format as selfcheck.py, plus "via": "scratch").
"""
import json, os, queue, shutil, subprocess, sys, threading, time

ROOT = os.path.dirname(os.path.abspath(__file__))
SEEDED = os.path.join(ROOT, "seeded")
ENV = dict(os.environ, CARGO_NET_OFFLINE="true")


def sh(cmd, cwd=None, timeout=7200, env=None):
    return subprocess.run(cmd, shell=True, cwd=cwd, env=env or ENV, stdout=subprocess.PIPE, stderr=subprocess.STDOUT, text=True, timeout=timeout)


def prepare_slot(slot):
    tag = "%d_%d" % (os.getpid(), slot)
    wt, hd, td = "/tmp/sc_wt_%s" % tag, "/tmp/sc_h_%s" % tag, "/tmp/sc_t_%s" % tag
    sh("git -C /repo worktree remove --force %s" % wt)
    r = sh("git -C /repo worktree add -q --detach %s HEAD" % wt)
    if r.returncode != 0:
        raise RuntimeError("cannot create worktree: " + r.stdout)
    shutil.copy("/repo/Cargo.lock", os.path.join(wt, "Cargo.lock"))
    shutil.rmtree(hd, ignore_errors=True)
    os.makedirs(hd)
    sh("rsync -a --exclude target %s/harness/ %s/" % (ROOT, hd))
    ct = open(os.path.join(hd, "Cargo.toml")).read().replace('path = "/repo"', 'path = "%s"' % wt)
    open(os.path.join(hd, "Cargo.toml"), "w").write(ct)
    return wt, hd, td


def worker(slot, q, out, lock, tier, all_props):
    wt, hd, td = prepare_slot(slot)
    env = dict(ENV, CARGO_TARGET_DIR=td)
    allp = ["C%02d" % k for k in range(1, 21)]
    try:
        while True:
            try:
                name = q.get_nowait()
            except queue.Empty:
                break
            d = os.path.join(SEEDED, name)
            meta = json.load(open(os.path.join(d, "meta.json")))
            props = meta["property"] if isinstance(meta["property"], list) else [meta["property"]]
            row = {"name": name, "property": props, "suite": None, "checks": {}, "via": "scratch"}
            sh("git checkout -q -- .", cwd=wt)
            ap = sh("git apply %s" % os.path.join(d, "patch.diff"), cwd=wt)
            if ap.returncode != 0:
                row["error"] = "patch does not apply: " + ap.stdout[-300:]
            else:
                binp = os.path.join(td, "debug", "bsvmc")
                # a failed build must not fall back on the binary built for the previous change
                if os.path.exists(binp):
                    os.remove(binp)
                b = sh("cargo build --offline --quiet 2>&1 | tail -20", cwd=hd, env=env)
                if b.returncode != 0 or not os.path.exists(binp):
                    row["error"] = "harness build failed: " + b.stdout[-600:]
                else:
                    for p in (allp if all_props else props):
                        t0 = time.time()
                        ev = "/tmp/sc_ev_%d_%d_%s.json" % (os.getpid(), slot, p)
                        c = sh("%s run %s --tier %s --evidence %s --findings %s/known_findings.json --replays /tmp/sc_replays_%d_%d" % (binp, p, tier, ev, ROOT, os.getpid(), slot), cwd=ROOT)
                        keys = [l.strip() for l in c.stdout.splitlines() if l.strip().startswith("key=")]
                        row["checks"][p] = {"exit": c.returncode, "violation": "VIOLATION property=%s" % p in c.stdout, "keys": [k.split(" cases=")[0][4:] for k in keys][:6], "wall_s": round(time.time() - t0, 1)}
                        if c.returncode not in (0, 1):
                            row["checks"][p]["tail"] = c.stdout[-400:]
            sh("git checkout -q -- .", cwd=wt)
            row["caught_by"] = [p for p, r in row["checks"].items() if r["violation"] and r["exit"] == 1]
            with lock:
                out.append(row)
                print("%-14s caught_by=%s %s %s" % (name, row["caught_by"], {p: (r["exit"], r["wall_s"]) for p, r in row["checks"].items()}, row.get("error", "")), flush=True)
    finally:
        sh("git -C /repo worktree remove --force %s" % wt)
        for p in (hd, td, "/tmp/sc_replays_%d_%d" % (os.getpid(), slot)):
            shutil.rmtree(p, ignore_errors=True)


def main():
    args = sys.argv[1:]
    j, tier, all_props, names = 3, "quick", False, []
    i = 0
    while i < len(args):
        if args[i] == "-j":
            j = int(args[i + 1]); i += 2
        elif args[i] == "--tier":
            tier = args[i + 1]; i += 2
        elif args[i] == "--all-props":
            all_props = True; i += 1
        else:
            names.append(args[i]); i += 1
    if not names:
        names = sorted(d for d in os.listdir(SEEDED) if os.path.exists(os.path.join(SEEDED, d, "patch.diff")))
    q = queue.Queue()
    for n in names:
        q.put(n)
    out, lock = [], threading.Lock()
    ts = [threading.Thread(target=worker, args=(k, q, out, lock, tier, all_props)) for k in range(min(j, len(names)))]
    for t in ts:
        t.start()
    for t in ts:
        t.join()
    path = os.path.join(SEEDED, "RESULTS-%s.json" % tier)
    old = {r["name"]: r for r in json.load(open(path))} if os.path.exists(path) else {}
    for r in out:
        prev = old.get(r["name"], {})
        for k in ("suite", "demo_passes_without_patch", "demo_fails_with_patch"):
            if prev.get(k) is not None and r.get(k) is None:
                r[k] = prev[k]
        # results of other properties' checks from earlier --all-props runs are kept (a seed may be caught, by design, by
        # the check of another property only); the properties run now replace their earlier rows
        if not all_props and prev.get("checks"):
            r["checks"] = dict(prev["checks"], **r["checks"])
            r["caught_by"] = [p for p, c in r["checks"].items() if c.get("violation") and c["exit"] == 1]
        old[r["name"]] = r
    json.dump(sorted(old.values(), key=lambda r: r["name"]), open(path, "w"), indent=1)
    missed = [r["name"] for r in out if not r.get("caught_by")]
    print("missed:", sorted(missed))


main()
