#!/usr/bin/env python3
"""Development-time helper: confirm seeded changes in scratch worktrees of /repo (never in /repo itself), in parallel.
For every /verif/seeded/<name>: demo passes on the unchanged tree, patch applies, the repository's suite still passes
(157 tests), demo fails with the patch. Results go to seeded/CONFIRM.json; the worktrees (under /tmp) are removed at the end.

  ./confirm_seeded.py [-j N] [name ...]
"""
import json, os, shutil, subprocess, sys, threading, queue

ROOT = os.path.dirname(os.path.abspath(__file__))
SEEDED = os.path.join(ROOT, "seeded")
ENV = dict(os.environ, CARGO_NET_OFFLINE="true")


def sh(cmd, cwd=None, timeout=3600, env=None):
    return subprocess.run(cmd, shell=True, cwd=cwd, env=env or ENV, stdout=subprocess.PIPE, stderr=subprocess.STDOUT, text=True, timeout=timeout)


def worker(slot, q, out, lock):
    wt = "/tmp/cf_slot_%d" % slot
    sh("git -C /repo worktree remove --force %s" % wt)
    r = sh("git -C /repo worktree add -q --detach %s HEAD" % wt)
    if r.returncode != 0:
        print("cannot create worktree", r.stdout)
        return
    env = dict(ENV, CARGO_TARGET_DIR="/tmp/cf_target_%d" % slot)
    try:
        while True:
            try:
                name = q.get_nowait()
            except queue.Empty:
                break
            d = os.path.join(SEEDED, name)
            row = {"name": name}
            demo = os.path.join(d, "demo.rs")
            sh("git checkout -q -- . && rm -f tests/zz_demo.rs", cwd=wt)
            if os.path.exists(demo):
                shutil.copy(demo, os.path.join(wt, "tests/zz_demo.rs"))
                t = sh("cargo test --offline --test zz_demo 2>&1 | tail -6", cwd=wt, env=env)
                row["demo_passes_without_patch"] = "test result: ok" in t.stdout
                os.remove(os.path.join(wt, "tests/zz_demo.rs"))
            ap = sh("git apply %s" % os.path.join(d, "patch.diff"), cwd=wt)
            row["applies"] = ap.returncode == 0
            if ap.returncode == 0:
                t = sh("cargo nextest run --offline -E 'not test(encode_pushdata_4_test)' 2>&1 | tail -4", cwd=wt, env=env)
                row["suite_passes_with_patch"] = "157 passed" in t.stdout
                if not row["suite_passes_with_patch"]:
                    row["suite_tail"] = t.stdout[-400:]
                if os.path.exists(demo):
                    shutil.copy(demo, os.path.join(wt, "tests/zz_demo.rs"))
                    t = sh("cargo test --offline --test zz_demo 2>&1 | tail -8", cwd=wt, env=env)
                    row["demo_fails_with_patch"] = ("test result: FAILED" in t.stdout) or ("error: test failed" in t.stdout)
                    os.remove(os.path.join(wt, "tests/zz_demo.rs"))
            sh("git checkout -q -- .", cwd=wt)
            with lock:
                out[name] = row
                print(name, {k: v for k, v in row.items() if k not in ("name", "suite_tail")}, flush=True)
    finally:
        sh("git -C /repo worktree remove --force %s" % wt)
        shutil.rmtree("/tmp/cf_target_%d" % slot, ignore_errors=True)


def main():
    args = sys.argv[1:]
    j = 4
    if args and args[0] == "-j":
        j = int(args[1]); args = args[2:]
    names = args or sorted(d for d in os.listdir(SEEDED) if os.path.exists(os.path.join(SEEDED, d, "patch.diff")))
    q = queue.Queue()
    for n in names:
        q.put(n)
    out, lock = {}, threading.Lock()
    ts = [threading.Thread(target=worker, args=(k, q, out, lock)) for k in range(min(j, len(names)))]
    for t in ts:
        t.start()
    for t in ts:
        t.join()
    path = os.path.join(SEEDED, "CONFIRM.json")
    old = json.load(open(path)) if os.path.exists(path) else {}
    old.update(out)
    json.dump(old, open(path, "w"), indent=1, sort_keys=True)
    bad = [n for n, r in out.items() if not (r.get("applies") and r.get("suite_passes_with_patch") and r.get("demo_fails_with_patch") and r.get("demo_passes_without_patch"))]
    print("not confirmed:", bad)


main()
