#!/usr/bin/env python3
"""Development-time validation: apply every seeded change under /verif/seeded/<name>/patch.diff to /repo,
confirm the repository's own suite still passes, run the check(s) of the property it breaks and expect a
VIOLATION, then undo the change (git -C /repo checkout -- .). Never part of MANIFEST checks.

  ./selfcheck.py [name ...] [--tier quick|thorough] [--no-suite] [--all-props]
"""
import json, os, subprocess, sys, time

ROOT = os.path.dirname(os.path.abspath(__file__))
SEEDED = os.path.join(ROOT, "seeded")
ENV = dict(os.environ, CARGO_NET_OFFLINE="true")


def sh(cmd, cwd=None, timeout=None):
    return subprocess.run(cmd, shell=True, cwd=cwd, env=ENV, stdout=subprocess.PIPE, stderr=subprocess.STDOUT, text=True, timeout=timeout)


def repo_clean():
    return sh("git -C /repo status --porcelain --untracked-files=no").stdout.strip() == ""


def main():
    args = sys.argv[1:]
    tier = "quick"
    suite = True
    all_props = False
    names = []
    i = 0
    while i < len(args):
        if args[i] == "--tier":
            tier = args[i + 1]; i += 2
        elif args[i] == "--no-suite":
            suite = False; i += 1
        elif args[i] == "--all-props":
            all_props = True; i += 1
        else:
            names.append(args[i]); i += 1
    if not names:
        names = sorted(d for d in os.listdir(SEEDED) if os.path.exists(os.path.join(SEEDED, d, "patch.diff")))
    if not repo_clean():
        print("refusing: /repo has uncommitted changes to tracked files")
        sys.exit(2)
    results = []
    allp = ["C%02d" % k for k in range(1, 21)]
    for name in names:
        d = os.path.join(SEEDED, name)
        meta = json.load(open(os.path.join(d, "meta.json")))
        props = meta["property"] if isinstance(meta["property"], list) else [meta["property"]]
        row = {"name": name, "property": props, "suite": None, "checks": {}}
        demo = os.path.join(d, "demo.rs")
        if os.path.exists(demo) and suite:
            # demonstration must pass on the unchanged tree ...
            import shutil
            shutil.copy(demo, "/repo/tests/zz_demo.rs")
            t = sh("cargo test --offline --test zz_demo 2>&1 | tail -5", cwd="/repo", timeout=1800)
            row["demo_passes_without_patch"] = "test result: ok" in t.stdout
            os.remove("/repo/tests/zz_demo.rs")
        ap = sh("git -C /repo apply %s" % os.path.join(d, "patch.diff"))
        if ap.returncode != 0:
            row["error"] = "patch does not apply: " + ap.stdout[-300:]
            results.append(row)
            print(name, "PATCH DOES NOT APPLY")
            continue
        try:
            if suite:
                t = sh("cargo nextest run --offline -E 'not test(encode_pushdata_4_test)' 2>&1 | tail -3", cwd="/repo", timeout=1800)
                row["suite"] = "157 passed" in t.stdout
                if os.path.exists(demo):
                    import shutil
                    shutil.copy(demo, "/repo/tests/zz_demo.rs")
                    t = sh("cargo test --offline --test zz_demo 2>&1 | tail -8", cwd="/repo", timeout=1800)
                    row["demo_fails_with_patch"] = ("test result: FAILED" in t.stdout) or ("error: test failed" in t.stdout)
                    os.remove("/repo/tests/zz_demo.rs")
            for p in (allp if all_props else props):
                t0 = time.time()
                c = sh("./check %s --tier %s" % (p, tier), cwd=ROOT, timeout=7200)
                keys = [l.strip() for l in c.stdout.splitlines() if l.strip().startswith("key=")]
                row["checks"][p] = {"exit": c.returncode, "violation": "VIOLATION property=%s" % p in c.stdout, "keys": [k.split(" cases=")[0][4:] for k in keys][:6], "wall_s": round(time.time() - t0, 1)}
        finally:
            sh("git -C /repo checkout -- .")
        caught = [p for p, r in row["checks"].items() if r["violation"] and r["exit"] == 1]
        row["caught_by"] = caught
        results.append(row)
        print("%-28s suite_passes=%s demo(ok w/o, fails with)=%s/%s caught_by=%s %s" % (name, row["suite"], row.get("demo_passes_without_patch"), row.get("demo_fails_with_patch"), caught, {p: (r["exit"], r["wall_s"]) for p, r in row["checks"].items()}))
    # leave the harness built against the clean tree again
    sh("./check setup", cwd=ROOT)
    out = os.path.join(SEEDED, "RESULTS-%s.json" % tier)
    old = {}
    if os.path.exists(out):
        old = {r["name"]: r for r in json.load(open(out))}
    for r in results:
        old[r["name"]] = r
    json.dump(sorted(old.values(), key=lambda r: r["name"]), open(out, "w"), indent=1)
    missed = [r["name"] for r in results if not r.get("caught_by")]
    print("missed:", missed)
    sys.exit(1 if missed else 0)


main()
