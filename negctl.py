#!/usr/bin/env python3
"""Development-time false-alarm control: the changes under negctl/<name>/ were written by agents that were given one
property and asked for realistic changes on its code path that do NOT break it (different error reporting, behaviour on
inputs the statement leaves open, internal restructuring, new API surface). The checks must stay silent on every one.

Per change, in a scratch git worktree of /repo (never /repo itself):
  1. the patch applies, the library compiles and the repository's own suite still passes,
  2. a scratch copy of the harness builds against the changed tree (a harness that no longer compiles is a broken check),
  3. the quick check of the change's own property and of every property anchored in a touched file runs.
Outcome per (change, property): exit 0 = silent (wanted), exit 1 = alarm (to be judged by hand: either the change breaks
that property after all, or the check demands more than the statement), anything else = machinery error.

  ./negctl.py [-j N] [--all-props] [name ...]        results: negctl/RESULTS.json
"""
import json, os, queue, shutil, subprocess, sys, threading, time

ROOT = os.path.dirname(os.path.abspath(__file__))
DIR = os.path.join(ROOT, "negctl")
ENV = dict(os.environ, CARGO_NET_OFFLINE="true")


def sh(cmd, cwd=None, timeout=7200, env=None):
    return subprocess.run(cmd, shell=True, cwd=cwd, env=env or ENV, stdout=subprocess.PIPE, stderr=subprocess.STDOUT, text=True, timeout=timeout)


def file_props():
    m = {}
    for l in open(os.path.join(ROOT, "properties.jsonl")):
        p = json.loads(l)
        for f in p["anchors"]["files"]:
            m.setdefault(f, []).append(p["id"])
    extra = {"src/keypair/private_key.rs": ["C07", "C05", "C11", "C12", "C08"], "src/keypair/public_key.rs": ["C07", "C09", "C11", "C12", "C08", "C19"], "src/script/mod.rs": ["C02", "C17", "C10", "C14", "C19", "C18", "C01"], "src/script/op_codes.rs": ["C02", "C14", "C17", "C18"],
             "src/signature/mod.rs": ["C06", "C12", "C19", "C15", "C09"], "src/transaction/sighash.rs": ["C03", "C04", "C10", "C15", "C06", "C16"], "src/traits/varint.rs": ["C01", "C02", "C03", "C10", "C12", "C17"], "src/utils/mod.rs": ["C18", "C09", "C01"],
             "src/hash/digest_utils.rs": ["C05", "C13"], "src/chainparams/mod.rs": ["C07"], "src/encryption/mod.rs": ["C20", "C11"], "src/interpreter/script_matching.rs": ["C14", "C15", "C16"], "src/interpreter/mod.rs": ["C14", "C15", "C16"], "src/interpreter/stack_trait.rs": ["C14", "C15", "C16"],
             "src/interpreter/errors.rs": ["C14", "C15", "C16"], "src/transaction/mod.rs": ["C01", "C03", "C04", "C10", "C18", "C09"], "src/transaction/txin.rs": ["C01", "C09", "C18", "C03"], "src/transaction/txout.rs": ["C01", "C09", "C18"], "src/hash/mod.rs": ["C13", "C05", "C07", "C12"],
             "src/ecies/ecies_ciphertext.rs": ["C11", "C09"], "src/ecies/mod.rs": ["C11"], "src/bsm/mod.rs": ["C12"], "src/address/mod.rs": ["C07", "C12"], "src/ecdsa/sign.rs": ["C05", "C12", "C15"], "src/ecdsa/verify.rs": ["C05", "C12", "C15"], "src/script/script_bit.rs": ["C18", "C02"],
             "src/script/script_template.rs": ["C19"], "src/transaction/match_criteria.rs": ["C19"], "src/kdf/pbkdf2_kdf.rs": ["C13", "C08"], "src/keypair/extended_private_key.rs": ["C08", "C09"], "src/keypair/extended_public_key.rs": ["C08", "C09"]}
    for f, ps in extra.items():
        for p in ps:
            if p not in m.setdefault(f, []):
                m[f].append(p)
    return m


def worker(slot, q, out, lock, all_props, fmap):
    tag = "%d_%d" % (os.getpid(), slot)
    wt, hd, td, ltd = "/tmp/nc_wt_%s" % tag, "/tmp/nc_h_%s" % tag, "/tmp/nc_t_%s" % tag, "/tmp/nc_lt_%s" % tag
    sh("git -C /repo worktree remove --force %s" % wt)
    if sh("git -C /repo worktree add -q --detach %s HEAD" % wt).returncode != 0:
        return
    shutil.copy("/repo/Cargo.lock", os.path.join(wt, "Cargo.lock"))
    shutil.rmtree(hd, ignore_errors=True)
    os.makedirs(hd)
    sh("rsync -a --exclude target %s/harness/ %s/" % (ROOT, hd))
    ct = open(os.path.join(hd, "Cargo.toml")).read().replace('path = "/repo"', 'path = "%s"' % wt)
    open(os.path.join(hd, "Cargo.toml"), "w").write(ct)
    henv, lenv = dict(ENV, CARGO_TARGET_DIR=td), dict(ENV, CARGO_TARGET_DIR=ltd)
    allp = ["C%02d" % k for k in range(1, 21)]
    try:
        while True:
            try:
                name = q.get_nowait()
            except queue.Empty:
                break
            d = os.path.join(DIR, name)
            meta = json.load(open(os.path.join(d, "meta.json")))
            row = {"name": name, "property": meta["property"], "suite": None, "harness_builds": None, "checks": {}}
            sh("git checkout -q -- . && git clean -fdq src tests", cwd=wt)
            ap = sh("git apply %s" % os.path.join(d, "patch.diff"), cwd=wt)
            if ap.returncode != 0:
                row["error"] = "patch does not apply: " + ap.stdout[-300:]
            else:
                t = sh("cargo nextest run --offline -E 'not test(encode_pushdata_4_test)' 2>&1 | tail -4", cwd=wt, env=lenv)
                row["suite"] = "157 passed" in t.stdout
                if os.path.exists(os.path.join(d, "demo.rs")):
                    shutil.copy(os.path.join(d, "demo.rs"), os.path.join(wt, "tests", "zz_demo.rs"))
                    dm = sh("cargo test --offline --test zz_demo 2>&1 | grep 'test result' | tail -1", cwd=wt, env=lenv)
                    row["demo_passes_with_patch"] = "test result: ok" in dm.stdout
                    os.remove(os.path.join(wt, "tests", "zz_demo.rs"))
                b = sh("cargo build --offline --quiet 2>&1 | grep -A8 '^error' | head -30", cwd=hd, env=henv)
                binp = os.path.join(td, "debug", "bsvmc")
                row["harness_builds"] = "error" not in b.stdout and os.path.exists(binp)
                if not row["harness_builds"]:
                    row["harness_build_error"] = b.stdout[-900:]
                else:
                    props = list(allp) if all_props else []
                    if not all_props:
                        props = [meta["property"]]
                        for f in meta["files"]:
                            for p in fmap.get(f, []):
                                if p not in props:
                                    props.append(p)
                    for p in props:
                        t0 = time.time()
                        c = sh("%s run %s --tier quick --evidence /tmp/nc_ev_%s.json --findings %s/known_findings.json --replays /tmp/nc_rp_%s" % (binp, p, tag, ROOT, tag), cwd=ROOT)
                        keys = [l.strip()[4:] for l in c.stdout.splitlines() if l.strip().startswith("key=")]
                        row["checks"][p] = {"exit": c.returncode, "keys": [k[:400] for k in keys[:8]], "wall_s": round(time.time() - t0, 1)}
                        if c.returncode not in (0, 1):
                            row["checks"][p]["tail"] = c.stdout[-500:]
            row["alarms"] = [p for p, r in row["checks"].items() if r["exit"] == 1]
            row["machinery_errors"] = [p for p, r in row["checks"].items() if r["exit"] not in (0, 1)]
            with lock:
                out.append(row)
                print("%-10s suite=%s demo=%s builds=%s alarms=%s errors=%s %s" % (name, row["suite"], row.get("demo_passes_with_patch"), row["harness_builds"], row["alarms"], row["machinery_errors"], row.get("error", "")), flush=True)
    finally:
        sh("git -C /repo worktree remove --force %s" % wt)
        for p in (hd, td, ltd, "/tmp/nc_rp_%s" % tag):
            shutil.rmtree(p, ignore_errors=True)


def main():
    args = sys.argv[1:]
    j, all_props, names = 3, False, []
    i = 0
    while i < len(args):
        if args[i] == "-j":
            j = int(args[i + 1]); i += 2
        elif args[i] == "--all-props":
            all_props = True; i += 1
        else:
            names.append(args[i]); i += 1
    if not names:
        names = sorted(d for d in os.listdir(DIR) if os.path.exists(os.path.join(DIR, d, "patch.diff")))
    fmap = file_props()
    q = queue.Queue()
    for n in names:
        q.put(n)
    out, lock = [], threading.Lock()
    ts = [threading.Thread(target=worker, args=(k, q, out, lock, all_props, fmap)) for k in range(min(j, len(names)))]
    for t in ts:
        t.start()
    for t in ts:
        t.join()
    path = os.path.join(DIR, "RESULTS.json")
    old = {r["name"]: r for r in json.load(open(path))} if os.path.exists(path) else {}
    for r in out:
        prev = old.get(r["name"])
        if prev and not all_props:
            r["checks"] = dict(prev.get("checks", {}), **r["checks"])
            r["alarms"] = [p for p, c in r["checks"].items() if c["exit"] == 1]
            r["machinery_errors"] = [p for p, c in r["checks"].items() if c["exit"] not in (0, 1)]
        old[r["name"]] = r
    json.dump(sorted(old.values(), key=lambda r: r["name"]), open(path, "w"), indent=1)
    print("alarms:", sorted((r["name"], r["alarms"]) for r in out if r["alarms"]))
    print("not building / machinery:", sorted(r["name"] for r in out if not r["harness_builds"] or r["machinery_errors"]))


main()
