#!/usr/bin/env python3
"""Maintain known_findings.json (development-time tool; checks never write this file).
  kf.py open  <property> <key> <what> [example-json-or-replay-file]
  kf.py fixed <property> <key> <commit> <what> [example]
"""
import json, sys, os
P = os.path.join(os.path.dirname(os.path.abspath(__file__)), "known_findings.json")
d = json.load(open(P))
mode, prop, key = sys.argv[1], sys.argv[2], sys.argv[3]
def example(a):
    if not a: return None
    if os.path.exists(a):
        j = json.load(open(a)); return {"case": j.get("case"), "detail": j.get("detail")}
    try: return json.loads(a)
    except Exception: return a
d["findings"] = [f for f in d["findings"] if not (f["property"] == prop and f["key"] == key)]
if mode == "open":
    what = sys.argv[4]; ex = example(sys.argv[5] if len(sys.argv) > 5 else None)
    d["findings"].append({"property": prop, "key": key, "status": "open", "what": what, "example": ex})
else:
    commit, what = sys.argv[4], sys.argv[5]; ex = example(sys.argv[6] if len(sys.argv) > 6 else None)
    d["findings"].append({"property": prop, "key": key, "status": "fixed", "commit": commit, "what": what, "example": ex,
                          "line": "fixed: property=%s %s %s" % (prop, commit, what)})
d["findings"].sort(key=lambda f: (f["property"], f["status"] != "open", f["key"]))
json.dump(d, open(P, "w"), indent=1)
print("known_findings.json: %d entries" % len(d["findings"]))
