#!/usr/bin/env python3
"""Development-time helper: copy the deliverables of a seeded-change sub-agent (OUT/<k>/{patch.diff,demo.rs,notes.md}
in its scratch worktree) to /verif/seeded/<prop>-<round>-<k>/ with a meta.json. Nothing is applied to /repo here;
confirmation (suite passes, demo fails with / passes without, which check reports it) is selfcheck.py's job.

  ./import_seeded.py <round-tag> <worktree-prefix> [props...]      e.g. ./import_seeded.py r3 /tmp/mut3_
"""
import json, os, shutil, sys

ROOT = os.path.dirname(os.path.abspath(__file__))
tag, prefix = sys.argv[1], sys.argv[2]
props = sys.argv[3:] or ["C%02d" % k for k in range(1, 21)]
ORIGIN = {
    "r10": "fresh sub-agent, round 10: given only the property (title, statement, quantifier, why the tests cannot settle it, anchor list) and a scratch worktree, with the request for three changes of three kinds: (1) state that outlives a call - a memo, cache, thread-local, reused buffer or altered object that makes the FIRST call right and a LATER, colliding call wrong; (2) a standard-library / dependency call replaced by a near-equivalent sibling that differs for rare inputs; (3) a compensating pair - two sites changed consistently so that the library still agrees with itself on every round trip but no longer with the published standard for a rare class of inputs",
    "r8": "fresh sub-agent, round 8 (refactorings): given only the property with its anchors and a scratch worktree, with the request for two plausible refactorings of 15-60 lines on the property's path (extracted helper, merged duplicates, loop <-> iterator, changed data structure, moved cache / early return, recursion -> iteration, tightened types) that read as behaviour-preserving but are not for some rare legitimate input or call sequence",
    "r7": "fresh sub-agent, round 7 (regressions): given only the property with its anchors and a scratch worktree that carries the library's git history, with the request for three changes that each bring back, wholly or preferably partially, the defect repaired by a different `fix:` commit (one hunk reverted, the fix lost for a sub-case by a refactor, a condition narrowed, a twin entry point taking the old path)",
    "r6": "fresh sub-agent, round 6: given only the property (title, statement, quantifier, why the tests cannot settle it, anchor list) and a scratch worktree — no description of any checker — with the request for three changes that differ in where they sit: one in a helper / trait / utility that the anchored code calls but that lies outside the anchored functions, one in an impl, constructor, setter or conversion of the types involved, one in the anchored algorithm that needs two independent conditions at once",
    "r5": "fresh sub-agent, round 5: given only the property (title, statement, quantifier, why the tests cannot settle it, anchor list) and a scratch worktree — no description of any checker — with the request for three changes in three different mechanisms: one triggered by a multi-step API sequence, one by an unusual but legitimate input, one made of two cooperating sites",
    "r4": "fresh sub-agent, round 4: given the property text, a scratch worktree and a detailed description of everything the strengthened checker sweeps (reference models, length/bit/content sweeps, grammar enumeration, fixpoint histories, constructed signatures, tree deviations) with the request for a one- or two-line slip in existing code that depends on three things at once, on counts or depths beyond the sweeps, on two interacting API objects, on repeated operations, or on a forgotten public entry point",
    "r3": "fresh sub-agent, round 3: given the property text, a scratch worktree and a description of the strengthened checker's sweeps (lengths to ~1100, 2^k/2^k-1 fields, opcode pairs, fixpoint histories) with the request to evade them through content-, relation-, position- or history-dependent triggers",
}
for p in props:
    for k in ("1", "2", "3"):
        src = os.path.join(prefix + p, "OUT", k)
        if not os.path.exists(os.path.join(src, "patch.diff")):
            if k != "3":
                print("missing", src)
            continue
        dst = os.path.join(ROOT, "seeded", "%s-%s-%s" % (p, tag, k))
        os.makedirs(dst, exist_ok=True)
        for f in ("patch.diff", "demo.rs", "notes.md"):
            if os.path.exists(os.path.join(src, f)):
                shutil.copy(os.path.join(src, f), os.path.join(dst, f))
        needs = ""
        if os.path.exists(os.path.join(src, "notes.md")):
            lines = [l.strip() for l in open(os.path.join(src, "notes.md")) if l.strip()]
            needs = lines[0][:300] if lines else ""
        json.dump({"property": p, "origin": ORIGIN.get(tag, tag), "needs": needs,
                   "ran": "selfcheck.py: patch applies, repository suite passes, demo fails with / passes without the patch, ./check %s" % p},
                  open(os.path.join(dst, "meta.json"), "w"), indent=1)
        print("imported", dst)
