#!/usr/bin/env python3
"""Regenerates MANIFEST.json from the table below (kept next to the checks so the two cannot drift)."""
import json, os, subprocess
ROOT = os.path.dirname(os.path.abspath(__file__))

MC = "model_checking"
CHECKS = {
 "C02": dict(design="§6 C02", technique="exhaustive enumeration of all byte strings up to a length (plus class-alphabet strings, all conditional skeletons and every push-length boundary) as scripts, each parsed by the real code and compared with an independent tokenizer; abort-prone cases run in isolated child processes",
   text="Exhaustive within stated bounds: every byte string of length 0..3 (thorough 0..4) is given to Script::from_bytes; plus every 5-byte (6-byte) string over a 20-symbol class alphabet, every string of up to 8 (9) symbols over {IF,NOTIF,ELSE,ENDIF,NOP,push}, every push form at each length boundary with complete/short/absent payload and cut length fields, nesting depths 10/100/1000, and the push-prefix helper at every boundary of 75/76, 255/256, 65535/65536, 2^32-1. Accepted scripts must re-serialise to the input and flatten to the reference token list; truncated pushes and unclosed IF/NOTIF must be rejected; well-formed strings over accepted opcodes must be accepted. Strings whose PUSHDATA4 declares far more than remains run in child processes under a counting allocator, so an allocation bomb or abort becomes a verdict, not a crash.",
   note="trusted base: refs::script tokenizer; the accepted opcode set and block openers are learned from the implementation (the property does not fix them); scripts longer than the bounds are covered only by listed boundary cases"),
 "C13": dict(design="§6 C13", technique="bounded-exhaustive enumeration of input shapes (full cartesian products of length/pattern alphabets, all chunkings) against an independent reference model, every model result compared with the real code",
   text="Exhaustive within stated bounds: every message length 0..300 (thorough 0..1100) x 4 byte patterns for the six digests, the full key-length x message-length grid for the six HMAC variants, the PBKDF2 grid, and all 2^(n-1) chunkings of inputs up to 12 (14) bytes through the three streaming adapters in plain/reversed mode with finalize and finalize_reset+reuse. Each case runs the real library function and is compared byte-for-byte with a from-the-standard reference. This is the right level because the library's own contribution (argument order, composition, adapter state handling, reverse flag) is finite-shape logic that the boundary alphabets separate; it says nothing about 256-bit-specific values outside the alphabets.",
   note="trusted base: refs::hashes (written from FIPS 180-4/RFC 2104/RFC 8018, KAT-checked, cross-checked with Python hashlib in setup); rustc; alphabets as recorded in evidence.bounds"),
}

NOT_YET = {}
PENDING_REASON = "check not built yet in this phase of the work (see DESIGN.md §10 build order); will be claimed when its harness module lands"

def main():
    props = [json.loads(l) for l in open(os.path.join(ROOT, "properties.jsonl"))]
    hooks_commits = subprocess.run(["git", "-C", "/repo", "log", "--format=%H", "--grep=^verif-hooks"], stdout=subprocess.PIPE, text=True).stdout.split()
    checks, na = [], []
    for p in props:
        pid = p["id"]
        if pid in CHECKS:
            c = CHECKS[pid]
            checks.append({
                "property_id": pid,
                "quick_cmd": "./check %s --tier quick" % pid,
                "thorough_cmd": "./check %s --tier thorough" % pid,
                "evidence_file": "/verif/evidence/%s.json" % pid,
                "replay_cmd_template": "./check %s --replay {path}" % pid,
                "engine": c.get("engine", "bsvmc-E1"),
                "level_claimed": {"category": MC, "text": c["text"], "design_ref": c["design"]},
                "level_note": c["note"],
                "technique": c["technique"],
            })
        else:
            na.append({"property_id": pid, "reason": NOT_YET.get(pid, PENDING_REASON)})
    m = {
        "version": 1,
        "setup_cmd": "./check setup",
        "hooks": {
            "guard": "cargo feature verif-hooks",
            "enable": "harness/Cargo.toml depends on bsv = { path = \"/repo\", features = [\"verif-hooks\"] }; every ./check rebuilds the library from /repo's working tree with the feature on",
            "baseline_off_cmd": "cd /repo && cargo nextest run --workspace --no-fail-fast --offline --test-threads 8 -E 'not test(encode_pushdata_4_test)' || cargo test --workspace --no-fail-fast --offline",
            "source_commits": hooks_commits,
            "add_only": True,
        },
        "engines": [
            {"name": "bsvmc-E1", "path": "harness/src/engine.rs", "kind_free_text": "bounded-exhaustive product enumerator over the real code, 16 worker threads, lock-step comparison with reference models in harness/src/refs"},
            {"name": "bsvmc-E2", "path": "harness/src/props", "kind_free_text": "explicit-state BFS over the real object / model state graph with canonical fingerprints (stateright for C04)"},
            {"name": "bsvmc-E3", "path": "harness/src/iso.rs", "kind_free_text": "child-process isolating runner with counting allocator and rlimits for totality properties"},
        ],
        "checks": checks,
        "not_applicable": na,
        "notes": "One Rust harness binary (harness/) serves every property; ./check builds it offline against /repo's current working tree (path dependency), runs the reference self-tests, runs the exploration, validates the evidence file and replays every reported violation twice in fresh processes before believing it. Exit 0 held / 1 violation / 2 machinery error.",
    }
    for e in m["engines"]:
        e["serves_properties"] = [c["property_id"] for c in checks if c["engine"] == e["name"]]
    json.dump(m, open(os.path.join(ROOT, "MANIFEST.json"), "w"), indent=1)
    print("MANIFEST.json: %d checks, %d not_applicable" % (len(checks), len(na)))

main()
