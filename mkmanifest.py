#!/usr/bin/env python3
"""Regenerates MANIFEST.json from the table below (kept next to the checks so the two cannot drift)."""
import json, os, subprocess
ROOT = os.path.dirname(os.path.abspath(__file__))

MC = "model_checking"
CHECKS = {
 "C07": dict(design="§6 C07", technique="bounded-exhaustive enumeration of key x compression x prefix x hash alphabets and of every single-character / payload-length / SEC1 tag-and-coordinate deviation of valid encodings, accept-iff-valid decided by independent secp256k1 + Base58Check implementations",
   text="Full products: key alphabet x compression (bytes/hex/WIF round trips, derived public key, HASH160, address string, locking script vs the reference); every network prefix 0..255 x hashes with 0..20 leading zero bytes (to_string/from_string/set_chain_params); get_unlocking_script succeeds iff HASH160(candidate key) equals the address hash for every prefix; every position x 63 characters substitution on valid WIFs and addresses; payloads of every length 0..40 under a valid checksum as address and as WIF; public-key candidates of every length 0..66, every tag byte x on-curve/off-curve/x>=p x-coordinates for 33 bytes, tags x (y, y+1, p-y, swapped) for 65 bytes, the identity byte. The library must accept exactly what the reference accepts.",
   note="trusted base: refs::secp, refs::b58, refs::hashes; WIF prefixes other than 0x80, hybrid tags 06/07 and out-of-range scalars are observed only (statement leaves them open); panics on malformed input are counted and left to C09"),
 "C08": dict(design="§6 C08", technique="bounded-exhaustive enumeration of seeds x all derivation paths up to depth 3 over a boundary index alphabet (every notation), deep chains, and every single-character / single-byte / length deviation of serialised keys, each compared with an independent BIP32 implementation; depth-overflow cases in isolated child processes",
   text="31 seeds (BIP32 vector seeds, standard and non-standard lengths) x every path of depth 1-2 (thorough 3) over {0,1,2,2^31-2,2^31-1,2^31,2^31+1,2^32-1}: key, chain code, depth, index, parent fingerprint and both strings equal the reference at the final edge; derive_from_path in each notation; CKDpub(neuter(parent)) = neuter(CKDpriv(parent)) = library public derivation on every normal edge; hardened public derivation refused; chains of depth 10/100/255/256; every position x 57 characters on xprv/xpub strings, every payload byte x 16 (255) values without fixing the checksum, payload lengths 74..86 with valid checksum: a string the reference rejects must be rejected.",
   note="trusted base: refs::b58 BIP32 (checked on BIP32 test vectors 1-4), refs::secp; 'm' alone and relative paths are pinned as errors by the repository's tests and excluded; non-standard seed lengths compared only when the library accepts them"),
 "C11": dict(design="§6 C11", technique="bounded-exhaustive enumeration of sender x recipient x message-length x mode products through every ECIES entry point against an independent BIE1 construction, plus every single-bit flip, every truncation and every wrong key of serialised ciphertexts",
   text="All ordered key pairs x compression forms x message lengths 0..48 and block/size boundaries x 3 patterns through ECIES::encrypt (both inclusion modes), PublicKey::encrypt_message, PrivateKey::encrypt_message and encrypt_with_ephemeral_private_key (ephemeral key supplied through the from_random seam): serialised bytes equal the reference BIE1 bytes, derive_cipher_keys equals SHA-512 of the reference ECDH point, decrypt inverts encrypt directly and after from_bytes(to_bytes()). Tamper leg: every bit of every base ciphertext at offset >= 4, every proper prefix, every alphabet key as wrong recipient/claimed sender must end in Err, never plaintext.",
   note="trusted base: refs::secp, refs::aes, refs::hashes; hook: from_random seam; flips inside the 4 magic bytes are run and only counted (the library does not authenticate the received magic and the statement does not list it); from_bytes panics on truncations are counted and left to C09"),
 "C18": dict(design="§6 C18", technique="bounded-exhaustive enumeration of transaction shapes x script forms x extended-field combinations through every JSON and CBOR entry-point pair with a differential round-trip oracle (PartialEq, wire bytes, txid, extended accessors); deep nesting in isolated child processes",
   text="Every one-byte script the parser accepts and a script alphabet covering every ScriptBit form (opcodes, direct pushes, minimal and non-minimal PUSHDATA1/2/4 incl. zero-length, nested conditionals with/without ELSE and empty branches, all-digit hex) in script_sig, locking script, output script and coinbase position; inputs x {no extended field, satoshis, locking script, both} x 64-bit value alphabet; every tuple of 0..3 inputs x 0..3 outputs; each through JSON string, to_json Value, CBOR bytes and CBOR hex, for the transaction and for each TxIn alone: decode(encode(t)) must equal t, with equal wire bytes, txid and extended accessors; 64-bit values are read back from the JSON text independently.",
   note="no independent encoder exists for the library's own format: the oracle is the round trip plus the wire form computed before encoding; objects are freshly built (empty sighash cache) because the derived PartialEq compares the cache"),
 "C20": dict(design="§6 C20", technique="bounded-exhaustive enumeration of mode x key x IV x message-length x pattern products against an independent AES implementation (cross-checked with the openssl CLI), plus every truncation and every invalid/valid padding of CBC ciphertexts",
   text="4 modes x key alphabet (incl. FIPS-197/SP 800-38A keys) x IV alphabet (incl. CTR blocks whose counter carries across bytes and the last value that does not wrap the low 64 bits) x every length 0..80 and size boundaries x patterns: ciphertext equals the reference, decrypt inverts encrypt, CBC length is 16*(len/16+1), CTR length equals len. Rejection leg: every prefix length of a 48-byte CBC ciphertext and 1759 manufactured final plaintext blocks (every illegal last byte, every single broken byte of every padding run, every valid padding) x 0-2 preceding blocks: Err exactly when the reference rejects, else the same plaintext.",
   note="trusted base: refs::aes (FIPS-197 / SP 800-38A vectors; 468 comparisons against `openssl enc`); wrong key/IV sizes belong to C09; CTR compared only where the low 64 counter bits do not wrap, as the property states"),
 "C05": dict(design="§6 C05", technique="bounded-exhaustive enumeration of key x message x hash x mode x nonce/entropy alphabets through every signing entry point of the real code, each signature compared with an independent RFC 6979/ECDSA implementation and verified by an independent verifier; negative cases decided by the reference verifier",
   text="Full products of a boundary key alphabet (1,2,3,n-1,n-2,(n±1)/2,2^128, ordinary keys) x compression x 13 message lengths x 3 patterns x {SHA-256,SHA-256d} x both nonce byte-order modes: deterministic signatures must equal the reference RFC 6979 + low-S (r,s) bit for bit, be reproducible, verify under the reference verifier and under every library verifier with the key in both SEC1 forms. Pre-hashed digests at the edges of [0,2^256); caller nonces over the key alphabet (both R.y parities and both raw-s halves occur, counted in evidence); randomised nonces through a deterministic entropy seam. Negative leg (every single-bit flip of a 2-byte message, longer message, other hash, every other key) is decided by the reference verifier. ECDH for every ordered key pair equals the reference point and is symmetric.",
   note="trusted base: refs::secp (checked against published RFC 6979 secp256k1 vectors and a pure-Python implementation), refs::hashes; hook: entropy seam (verif_hooks::push_entropy); 256-bit values outside the alphabets are not covered — the primitives are delegated to k256, what the library itself contributes (hash selection, byte order, reduction, argument order) is what the alphabets separate"),
 "C04": dict(design="§6 C04", engine="bsvmc-E2", technique="explicit-state model checking with stateright (parallel BFS to a fixpoint) where every state wraps the real Transaction object and every transition calls the real mutator/observer; differential oracle against a freshly parsed copy; canonical state hashing of contents + cache slots",
   text="All reachable states of the real Transaction object under the action alphabet {add,prepend,insert(i),set(i)} x {input,output} x operands, set_version/set_nlocktime (continuing on self or on the returned clone), clone, and sighash_preimage/sign observers for one flag of every cache-filling class (0x41,0x42,0xc1,0x43,0xc3,0xc2,legacy 0x01/0x03) at the first and last input. Inputs/outputs are capped (2 quick, 3 thorough) so the graph is finite and is searched to a fixpoint: every history of any length over the alphabet is covered, not only histories up to a depth. In every state each filled cache slot must equal the slot a freshly parsed copy computes; on every observer transition the result must equal the same call on the fresh copy. The search is run twice and the unique-state counts compared; each discovered verdict key gets a minimised action list replayable without the explorer.",
   note="trusted base: stateright 0.31; hook verif_hash_cache (read-only); the differential oracle has no hand-written expected value, so C04 does not inherit C03's verdict; operand alphabets are small (2-3 distinct inputs/outputs/versions)"),
 "C01": dict(design="§6 C01", technique="bounded-exhaustive enumeration: full products of boundary alphabets through a reference wire encoder plus every single (thorough: double) deviation of seed encodings, each decoded by the real code and compared field by field with an independent decoder; deviation spaces run in isolated child processes",
   text="Deviation 0: every combination of boundary values for version, locktime, sequence, vout, value, txid pattern; input/output counts on both sides of 252/253 (thorough 65535/65536) as a full square; script lengths across every compact-size and push boundary in three realisations and three positions; coinbase layouts. For each generated byte string the real parser must accept it, re-serialise to the same bytes, give the reference txid, agree with the reference decoder on 25 accessors, and the construction API (three variants) must serialise to the same bytes. Deviation 1 on five seed transactions (incl. a mainnet one and the genesis coinbase): every prefix, every byte position x byte value, every compact-size field in every non-canonical width and at extreme values up to 2^64-1, trailing bytes; an accepted string that is not well-formed must normalise to a fixed point. Thorough adds deviation 2 on the short seeds.",
   note="trusted base: refs::wire, refs::script, refs::hashes; opcode acceptance learned from the implementation; *_as_bytes big-endian helpers not covered"),
 "C03": dict(design="§6 C03", technique="bounded-exhaustive enumeration of transaction shapes x input index x flag x field alphabets, each preimage computed by the real code on a freshly parsed transaction and compared byte for byte with a reference implementation of the replay-protected sighash algorithm; signatures checked by a reference ECDSA verifier",
   text="Every (n_in 1..3, n_out 0..3, input index, per-input sequence tuple over a 4/5-value alphabet) x six FORKID flags; version x locktime x value x flag x index; subscript lengths across compact-size boundaries. The library preimage must equal the specified one (SINGLE out of range may be refused). Sign leg: the DER signature returned by Transaction::sign must verify under an independent ECDSA implementation against SHA256d of the specified preimage, carry the flag byte, be low-S, and Transaction::verify must accept it.",
   note="trusted base: refs::sighash (bound to the bsv.js vectors in the repository's tests), refs::secp, refs::wire"),
 "C10": dict(design="§6 C10", technique="bounded-exhaustive enumeration of transaction shapes x input index x legacy flag x subscripts with code separators at every position, compared byte for byte with a reference implementation of the original SignatureHash serialisation",
   text="As C03 for the six legacy flags with non-empty scripts on the other inputs; every input index including index >= 1 with outputs present; subscripts with OP_CODESEPARATOR at every token boundary, doubled, inside pass/fail/nested conditional branches and inside push data. Byte equality with the reference serialisation; SINGLE without a matching output may be refused.",
   note="trusted base: refs::sighash::legacy_preimage (bound to bsv.js vectors), refs::script, refs::wire"),
 "C02": dict(design="§6 C02", technique="exhaustive enumeration of all byte strings up to a length (plus class-alphabet strings, all conditional skeletons and every push-length boundary) as scripts, each parsed by the real code and compared with an independent tokenizer; abort-prone cases run in isolated child processes",
   text="Exhaustive within stated bounds: every byte string of length 0..3 (thorough 0..4) is given to Script::from_bytes; plus every 5-byte (6-byte) string over a 20-symbol class alphabet, every string of up to 8 (9) symbols over {IF,NOTIF,ELSE,ENDIF,NOP,push}, every push form at each length boundary with complete/short/absent payload and cut length fields, nesting depths 10/100/1000, and the push-prefix helper at every boundary of 75/76, 255/256, 65535/65536, 2^32-1. Accepted scripts must re-serialise to the input and flatten to the reference token list; truncated pushes and unclosed IF/NOTIF must be rejected; well-formed strings over accepted opcodes must be accepted. Strings whose PUSHDATA4 declares far more than remains run in child processes under a counting allocator, so an allocation bomb or abort becomes a verdict, not a crash.",
   note="trusted base: refs::script tokenizer; the accepted opcode set and block openers are learned from the implementation (the property does not fix them); scripts longer than the bounds are covered only by listed boundary cases"),
 "C13": dict(design="§6 C13", technique="bounded-exhaustive enumeration of input shapes (full cartesian products of length/pattern alphabets, all chunkings) against an independent reference model, every model result compared with the real code",
   text="Exhaustive within stated bounds: every message length 0..300 (thorough 0..1100) x 4 byte patterns for the six digests, the full key-length x message-length grid for the six HMAC variants, the PBKDF2 grid, and all 2^(n-1) chunkings of inputs up to 12 (14) bytes through the three streaming adapters in plain/reversed mode with finalize and finalize_reset+reuse. Each case runs the real library function and is compared byte-for-byte with a from-the-standard reference. This is the right level because the library's own contribution (argument order, composition, adapter state handling, reverse flag) is finite-shape logic that the boundary alphabets separate; it says nothing about 256-bit-specific values outside the alphabets.",
   note="trusted base: refs::hashes (written from FIPS 180-4/RFC 2104/RFC 8018, KAT-checked, cross-checked with Python hashlib in setup); rustc; alphabets as recorded in evidence.bounds"),
}

NOT_YET = {}
PENDING_REASON = "check not built yet in this phase of the work (see DESIGN.md §10 build order); will be claimed when its harness module lands"

def main():
    props = [json.loads(l) for l in open(os.path.join(ROOT, "properties.jsonl"))]
    hooks_commits = subprocess.run(["git", "-C", "/repo", "log", "--format=%H", "--grep=^verif-hooks"], stdout=subprocess.PIPE, text=True).stdout.split()
    checks, na = [], []
    for p in props:
        pid = p["id"]
        if pid in CHECKS:
            c = CHECKS[pid]
            checks.append({
                "property_id": pid,
                "quick_cmd": "./check %s --tier quick" % pid,
                "thorough_cmd": "./check %s --tier thorough" % pid,
                "evidence_file": "/verif/evidence/%s.json" % pid,
                "replay_cmd_template": "./check %s --replay {path}" % pid,
                "engine": c.get("engine", "bsvmc-E1"),
                "level_claimed": {"category": MC, "text": c["text"], "design_ref": c["design"]},
                "level_note": c["note"],
                "technique": c["technique"],
            })
        else:
            na.append({"property_id": pid, "reason": NOT_YET.get(pid, PENDING_REASON)})
    m = {
        "version": 1,
        "setup_cmd": "./check setup",
        "hooks": {
            "guard": "cargo feature verif-hooks",
            "enable": "harness/Cargo.toml depends on bsv = { path = \"/repo\", features = [\"verif-hooks\"] }; every ./check rebuilds the library from /repo's working tree with the feature on",
            "baseline_off_cmd": "cd /repo && cargo nextest run --workspace --no-fail-fast --offline --test-threads 8 -E 'not test(encode_pushdata_4_test)' || cargo test --workspace --no-fail-fast --offline",
            "source_commits": hooks_commits,
            "add_only": True,
        },
        "engines": [
            {"name": "bsvmc-E1", "path": "harness/src/engine.rs", "kind_free_text": "bounded-exhaustive product enumerator over the real code, 16 worker threads, lock-step comparison with reference models in harness/src/refs"},
            {"name": "bsvmc-E2", "path": "harness/src/props", "kind_free_text": "explicit-state BFS over the real object / model state graph with canonical fingerprints (stateright for C04)"},
            {"name": "bsvmc-E3", "path": "harness/src/iso.rs", "kind_free_text": "child-process isolating runner with counting allocator and rlimits for totality properties"},
        ],
        "checks": checks,
        "not_applicable": na,
        "notes": "One Rust harness binary (harness/) serves every property; ./check builds it offline against /repo's current working tree (path dependency), runs the reference self-tests, runs the exploration, validates the evidence file and replays every reported violation twice in fresh processes before believing it. Exit 0 held / 1 violation / 2 machinery error.",
    }
    for e in m["engines"]:
        e["serves_properties"] = [c["property_id"] for c in checks if c["engine"] == e["name"]]
    json.dump(m, open(os.path.join(ROOT, "MANIFEST.json"), "w"), indent=1)
    print("MANIFEST.json: %d checks, %d not_applicable" % (len(checks), len(na)))

main()
